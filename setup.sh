#!/bin/sh
# Offline setup: nothing to download or compile. Checks that the tools the checks need exist
# and that every specification module parses.
set -e
cd "$(dirname "$0")"
mkdir -p build evidence
test -x /venv/bin/python
java -version >/dev/null 2>&1
for m in spec/*.tla; do
  ( cd spec && java -cp /opt/veriftools/tla/tla2tools.jar:/opt/veriftools/tla/CommunityModules-deps.jar tla2sany.SANY "$(basename "$m")" >/dev/null 2>&1 ) || { echo "SANY failed on $m"; exit 1; }
done
# runnable example instances next to copies of the modules (spec/examples), regenerated from the harness's own constants
/venv/bin/python -W ignore -m harness.dump_examples >/dev/null
echo setup ok
