------------------------------ MODULE FilterDefs ------------------------------
(***************************************************************************)
(* The documented forms of filter definitions accepted by                  *)
(* FiltersSet.addfilter / updatefilter, and the script each of them must   *)
(* turn into: Skel(def) is the token skeleton of the generated filter      *)
(* (values appear only as the content of string tokens), Exts(def) the     *)
(* extensions it needs.  Design-level theorem checked by TLC for every     *)
(* definition of the space (SkeletonValid): the skeleton, preceded by a    *)
(* require of exactly Exts(def), is accepted by the reference recogniser   *)
(* SieveGrammar without any irregularity -- so a factory that emits the    *)
(* skeleton emits a strictly valid, self-sufficient script (C06).          *)
(* Each definition is printed with its skeleton and extensions; the        *)
(* harness builds it through the public API, lexes the real output and     *)
(* compares token by token; it also reads the definition back (C19).       *)
(***************************************************************************)
EXTENDS SieveGrammar, Json, SequencesExt

CONSTANTS Conds,      \* set of abstract conditions (records, see below)
          Acts,       \* set of abstract actions
          Pairs       \* TRUE: also two-condition / two-action definitions

T == BaseCmds
Punct(k) == TK(k, "")
S(x) == TK("str", x)

\* a value is <<"s", x>> (single string) or <<"l", <<x1, ...>>>> (list)
RECURSIVE ListToks(_)
ListToks(xs) == IF Len(xs) = 1 THEN <<S(xs[1])>> ELSE <<S(xs[1]), Punct("comma")>> \o ListToks(Tail(xs))
VToks(v) == IF v[1] = "s" THEN <<S(v[2])>> ELSE <<Punct("lb")>> \o ListToks(v[2]) \o <<Punct("rb")>>
AsList(v) == IF v[1] = "s" THEN <<"l", <<v[2]>>>> ELSE v

\* condition record: [k, neg, t1, t2, v1, v2, n]
\*   k = "header"  : t1 match tag, v1 header name(s), v2 key(s)
\*       "address" : t1 match tag, v1, v2            "envelope": t1 match tag, v1, v2 (always lists)
\*       "exists"  : v1 (always a list)               "size"    : t1 :over/:under, n the number
\*       "body"    : t1 transform tag, t2 match tag, v1 keys (always a list)
\*       "currentdate": t1 match tag, t2 relational operator ("" if none), v1 <<"s", date-part>>, v2 keys (list)
\*       "true" / "false"
CondToks(c) ==
  (IF c.neg THEN <<TK("id", "not")>> ELSE <<>>) \o
  CASE c.k \in {"true", "false"} -> <<TK("id", c.k)>>
    [] c.k \in {"header", "address"} -> <<TK("id", c.k), TK("tag", c.t1)>> \o VToks(c.v1) \o VToks(c.v2)
    [] c.k = "envelope" -> <<TK("id", "envelope"), TK("tag", c.t1)>> \o VToks(AsList(c.v1)) \o VToks(AsList(c.v2))
    [] c.k = "exists" -> <<TK("id", "exists")>> \o VToks(AsList(c.v1))
    [] c.k = "size" -> <<TK("id", "size"), TK("tag", c.t1), TK("num", c.n)>>
    [] c.k = "body" -> <<TK("id", "body"), TK("tag", c.t2), TK("tag", c.t1)>> \o VToks(AsList(c.v1))
    [] OTHER -> <<TK("id", "currentdate"), TK("tag", ":zone"), S("+0100"), TK("tag", c.t1)>>
                \o (IF c.t2 = "" THEN <<>> ELSE <<S(c.t2)>>) \o VToks(c.v1) \o VToks(AsList(c.v2))

\* action record: [k, tags (set), v1 (string class or ""), sub (subject), days, secs (number texts),
\*                 lst (a list value: the flags of setflag/addflag/removeflag and of :flags, the :addresses; <<>> = not given)]
ActToks(a) ==
  CASE a.k = "fileinto" ->
         <<TK("id", "fileinto")>>
         \o (IF ":copy" \in a.tags THEN <<TK("tag", ":copy")>> ELSE <<>>)
         \o (IF ":create" \in a.tags THEN <<TK("tag", ":create")>> ELSE <<>>)
         \o (IF ":flags" \in a.tags THEN <<TK("tag", ":flags")>> \o (IF a.lst = <<>> THEN <<S("\\Seen")>> ELSE VToks(<<"l", a.lst>>))
             ELSE <<>>)
         \o <<S(a.v1)>>
    [] a.k = "redirect" ->
         <<TK("id", "redirect")>> \o (IF ":copy" \in a.tags THEN <<TK("tag", ":copy")>> ELSE <<>>) \o <<S(a.v1)>>
    [] a.k \in {"reject", "setflag", "addflag", "removeflag"} ->
         <<TK("id", a.k)>> \o (IF a.lst = <<>> THEN <<S(a.v1)>> ELSE VToks(<<"l", a.lst>>))
    [] a.k = "vacation" ->
         <<TK("id", "vacation")>>
         \o (IF ":subject" \in a.tags THEN <<TK("tag", ":subject"), S(a.sub)>> ELSE <<>>)
         \o (IF ":days" \in a.tags THEN <<TK("tag", ":days"), TK("num", a.days)>> ELSE <<>>)
         \o (IF ":seconds" \in a.tags THEN <<TK("tag", ":seconds"), TK("num", a.secs)>> ELSE <<>>)
         \o (IF ":from" \in a.tags THEN <<TK("tag", ":from"), S("me@example.org")>> ELSE <<>>)
         \o (IF ":handle" \in a.tags THEN <<TK("tag", ":handle"), S("h1")>> ELSE <<>>)
         \o (IF ":mime" \in a.tags THEN <<TK("tag", ":mime")>> ELSE <<>>)
         \o (IF ":addresses" \in a.tags THEN <<TK("tag", ":addresses")>> \o VToks(<<"l", a.lst>>) ELSE <<>>)
         \o <<S(a.v1)>>
    [] OTHER -> <<TK("id", a.k)>>         \* keep, discard, stop

RECURSIVE JoinComma(_)
JoinComma(xs) == IF Len(xs) = 1 THEN xs[1] ELSE xs[1] \o <<Punct("comma")>> \o JoinComma(Tail(xs))
RECURSIVE JoinSemi(_)
JoinSemi(xs) == IF xs = <<>> THEN <<>> ELSE xs[1] \o <<Punct("semi")>> \o JoinSemi(Tail(xs))

\* definition: [mt, conds (sequence), acts (sequence)]
Skel(d) == <<TK("id", "if"), TK("id", d.mt), Punct("lp")>>
           \o JoinComma([i \in 1..Len(d.conds) |-> CondToks(d.conds[i])])
           \o <<Punct("rp"), Punct("lc")>>
           \o JoinSemi([i \in 1..Len(d.acts) |-> ActToks(d.acts[i])])
           \o <<Punct("rc")>>

AllExts == [InitState EXCEPT !.loaded = KnownExts]
Exts(d) == ExtsUsed(T, RunSeq(T, AllExts, Skel(d)))

ReqToks(E) == IF E = {} THEN <<>>
              ELSE <<TK("id", "require"), Punct("lb")>> \o ListToks(SetToSeq(E)) \o <<Punct("rb"), Punct("semi")>>

Final(d) == RunSeq(T, InitState, ReqToks(Exts(d)) \o Skel(d) \o <<EOFTok>>)

\* ------------------------------------------------------------- the space
VARIABLE def
Singles == {[mt |-> m, conds |-> <<c>>, acts |-> <<a>>] : m \in {"anyof", "allof"}, c \in Conds, a \in Acts}
Doubles == {[mt |-> "allof", conds |-> <<c1, c2>>, acts |-> <<a1, a2>>] :
               c1 \in Conds, c2 \in {c \in Conds : c.k \in {"true", "exists", "header"} /\ ~c.neg},
               a1 \in {a \in Acts : a.k \in {"fileinto", "keep", "addflag"}}, a2 \in {a \in Acts : a.k \in {"stop", "redirect"}}}
\* a condition (an action) given twice, also as the last one: the definition is legal and every copy is written
Repeats == {[mt |-> "anyof", conds |-> <<c1, c2, c1>>, acts |-> <<a1, a2, a1>>] :
              c1 \in {c \in Conds : c.k \in {"header", "exists", "size", "true"}},
              c2 \in {c \in Conds : c.k = "false"},
              a1 \in {a \in Acts : a.k \in {"addflag", "keep"} /\ a.lst = <<>>},
              a2 \in {a \in Acts : a.k = "discard"}}
\* a negated condition followed by a plain one (and a plain one in front): negation belongs to its own condition only
\* (seed C19j: a flag left set by `notexists` turned the following `:contains` into `:notcontains` at read-back)
NegLead == {[mt |-> m, conds |-> cs, acts |-> <<a>>] :
              m \in {"anyof"}, a \in {x \in Acts : x.k = "keep"},
              cs \in UNION {{<<c1, c2>>, <<c2, c1, c2>>} : c1 \in {c \in Conds : c.neg}, c2 \in {c \in Conds : ~c.neg /\ c.k \notin {"true", "false"}}}}
Init == def \in Singles \cup (IF Pairs THEN Doubles ELSE {}) \cup Repeats \cup NegLead
Next == UNCHANGED def
Spec == Init /\ [][Next]_def

\* C06 at design level
SkeletonValid == LET f == Final(def) IN f.v = "acc" /\ f.irr = {} /\ f.devs = {}
\* removing any needed extension from the require makes the same skeleton invalid (the require is exact)
RequireExact == \A e \in Exts(def) :
                   RunSeq(T, InitState, ReqToks(Exts(def) \ {e}) \o Skel(def) \o <<EOFTok>>).v = "rej"

TreeOutF(s) == [i \in 1..Len(s.nodes) |->
                  <<s.nodes[i].name, s.nodes[i].par, s.nodes[i].role, s.nodes[i].args, s.nodes[i].blk>>]
\* the tree of the filter alone (no require): what the generated text must parse to, whatever the order of its tags
SkelTree == TreeOutF(RunSeq(T, AllExts, Skel(def) \o <<EOFTok>>))
Emit == PrintT(ToJson(<<def, Skel(def), SetToSeq(Exts(def)), SkelTree>>))
=============================================================================
