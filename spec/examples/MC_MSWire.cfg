SPECIFICATION Spec
CONSTANTS
 Symbols <- MCSymbols
 MaxLen = 2
INVARIANT RoundTrip
INVARIANT SelfDelimiting
CHECK_DEADLOCK FALSE
