--------------------------- MODULE MSSessionTrace ---------------------------
(***************************************************************************)
(* Trace validation for C10 / C16: what the real client did (calls, bytes  *)
(* written per connection and channel, decoded to verb and mechanism) and  *)
(* what the scripted server did (capability announcements, replies, TLS    *)
(* handshakes) is a sequence of raw events; this specification replays it, *)
(* keeps the *server-side truth* (which connection is authenticated, on    *)
(* which the handshake succeeded, what was announced last on the current   *)
(* channel) and evaluates the properties at every write and return.        *)
(* Events (JSON arrays):                                                   *)
(*   ["call","connect",wantTLS,pref] ["call","op",name]                    *)
(*   ["open",conn] ["caps",conn,mechs|["-absent-"]] ["tlsup",conn]          *)
(*   ["write",conn,chan,verb,mech] ["reply",conn,verb,status]              *)
(*   ["ret",kind]   kind: true | false | error | other                     *)
(* One line per trace: id, first violated clause ("" if none), its index.  *)
(***************************************************************************)
EXTENDS MSCommon, Json, IOUtils

Traces == JsonDeserialize(IOEnv.TRACE_FILE)

VARIABLES tid, i, authed, tlsup, ann, want, pref, incall, bad, badat, tried
vars == <<tid, i, authed, tlsup, ann, want, pref, incall, bad, badat, tried>>

Init == /\ tid \in 1..Len(Traces) /\ i = 0 /\ authed = {} /\ tlsup = {} /\ ann = <<>>
        /\ want = FALSE /\ pref = "" /\ incall = "" /\ bad = "" /\ badat = 0
        /\ tried = {}          \* connections on which an AUTHENTICATE command was written

E == Traces[tid].ev[i + 1]
Ann(c) == IF c \in DOMAIN ann THEN ann[c] ELSE Absent
Flag(clause) == /\ bad' = IF bad = "" THEN clause ELSE bad
                /\ badat' = IF bad = "" THEN i + 1 ELSE badat

WriteClause ==
  LET c == E[2]  ch == E[3]  verb == E[4]  mech == E[5] IN
  IF verb \in ScriptVerbs /\ c \notin authed THEN "NoScriptCmdBeforeAuth"
  ELSE IF verb = "AUTHENTICATE" /\ want /\ ~(c \in tlsup /\ ch = "tls") THEN "NoCredsBeforeTLS"
  ELSE IF verb = "AUTHENTICATE" /\ (mech = "" \/ mech # ChooseMech(Ann(c), pref)) THEN
       (IF want /\ c \in tlsup THEN "MechFromPostTLSCaps" ELSE "MechRight")
  ELSE ""

CurConn == Max(DOMAIN ann \cup {0})
\* connect gave up although the capabilities it had to use (the post-TLS ones when TLS was asked for and came up)
\* announce a mechanism it implements -- whatever the encoding of the announcement -- and it never tried it
RetClause ==
  IF incall = "connect" /\ E[2] = "true" /\ CurConn \notin authed THEN "ConnectTrueWithoutOK"
  ELSE IF incall = "connect" /\ E[2] # "true" /\ CurConn \in authed THEN "ConnectNotTrueAfterOK"
  ELSE IF incall = "connect" /\ CurConn # 0 /\ CurConn \notin tried /\ (want => CurConn \in tlsup)
          /\ ChooseMech(Ann(CurConn), pref) # "" THEN "MechAvailableNotTried"
  ELSE ""

Next ==
  /\ i < Len(Traces[tid].ev)
  /\ i' = i + 1
  /\ UNCHANGED tid
  /\ CASE E[1] = "call" ->
            /\ incall' = E[2]
            /\ want' = IF E[2] = "connect" THEN E[3] ELSE want
            /\ pref' = IF E[2] = "connect" THEN E[4] ELSE pref
            /\ UNCHANGED <<authed, tlsup, ann, bad, badat, tried>>
       [] E[1] = "open" ->
            /\ ann' = (E[2] :> Absent) @@ ann
            /\ UNCHANGED <<authed, tlsup, want, pref, incall, bad, badat, tried>>
       [] E[1] = "caps" ->
            /\ ann' = (E[2] :> E[3]) @@ ann
            /\ UNCHANGED <<authed, tlsup, want, pref, incall, bad, badat, tried>>
       [] E[1] = "tlsup" ->
            /\ tlsup' = tlsup \cup {E[2]}
            /\ ann' = (E[2] :> Absent) @@ ann        \* what was announced in clear text is void
            /\ UNCHANGED <<authed, want, pref, incall, bad, badat, tried>>
       [] E[1] = "write" ->
            /\ IF WriteClause # "" THEN Flag(WriteClause) ELSE UNCHANGED <<bad, badat>>
            /\ tried' = IF E[4] = "AUTHENTICATE" THEN tried \cup {E[2]} ELSE tried
            /\ UNCHANGED <<authed, tlsup, ann, want, pref, incall>>
       [] E[1] = "reply" ->
            /\ authed' = IF E[3] = "AUTHENTICATE" /\ E[4] = "OK" THEN authed \cup {E[2]} ELSE authed
            /\ UNCHANGED <<tlsup, ann, want, pref, incall, bad, badat, tried>>
       [] OTHER ->   \* "ret"
            /\ IF RetClause # "" THEN Flag(RetClause) ELSE UNCHANGED <<bad, badat>>
            /\ incall' = ""
            /\ UNCHANGED <<authed, tlsup, ann, want, pref, tried>>

Spec == Init /\ [][Next]_vars
Emit == (i = Len(Traces[tid].ev)) => PrintT(ToJson(<<Traces[tid].id, bad, badat>>))
=============================================================================
