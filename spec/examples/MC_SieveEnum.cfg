SPECIFICATION Spec
CONSTANTS
 Vocab <- MCVocab
 Prelude <- MCPrelude
 Custom <- MCCustom
 MaxLen = 4
 EnabledDevs = {"Dev_LateDetection", "Dev_OptionalTagsRefused"}
INVARIANT OneRefPath
INVARIANT GatedInv
INVARIANT RejectSticksInv
INVARIANT OneTokenPerStep
INVARIANT RoundTrip
PROPERTY Progress
CHECK_DEADLOCK FALSE
