SPECIFICATION Spec
CONSTANTS
 MaxCalls = 2
 CapsPairs <- MCPairs
 Prefs = {""}
 TLSArgs = {TRUE, FALSE}
 Reactions = {"OK", "NO", "BYE", "silence"}
 OpVerbs = {"LISTSCRIPTS"}
 EnabledDevs = {}
INVARIANT NoScriptCmdBeforeAuth
INVARIANT NoCredsBeforeTLS
INVARIANT MechRight
INVARIANT ClientFlagSound
CHECK_DEADLOCK FALSE
