---- MODULE MC_SieveEnum ----
EXTENDS SieveEnum
MCVocab == <<TK("id", "if"), TK("id", "elsif"), TK("id", "else"), TK("id", "stop"), TK("id", "keep"), TK("id", "discard"), TK("id", "true"), TK("id", "false"), TK("id", "not"), TK("id", "anyof"), TK("id", "allof"), TK("id", "bogus"), TK("str", "a"), TK("num", "1"), TK("tag", ":bogus"), TK("lb", ""), TK("rb", ""), TK("lp", ""), TK("rp", ""), TK("lc", ""), TK("rc", ""), TK("semi", ""), TK("comma", "")>>
MCPrelude == <<>>
MCCustom == <<>>

====
