------------------------------ MODULE SieveEnum ------------------------------
(***************************************************************************)
(* Enumeration mode of SieveGrammar.  A state is a token sequence (indices *)
(* into Vocab) together with the SET of recogniser states it can lead to:  *)
(* exactly one of them is the reference path (devs = {}); the others went  *)
(* through named deviations (EnabledDevs).  Every sequence up to MaxLen    *)
(* that still has a running path is extended by every token.  One JSON     *)
(* line per distinct state is printed: for each path, the outcome of the   *)
(* sequence taken as a complete script (end-of-input applied to running    *)
(* paths).  The harness renders the sequence to bytes, replays it into     *)
(* sievelib.parser.Parser and compares: the reference path is what the     *)
(* properties demand, a deviation path is a known finding's prediction.    *)
(***************************************************************************)
EXTENDS SieveGrammar, Json, SequencesExt

CONSTANTS Vocab,      \* sequence of tokens
          Prelude,    \* token sequence consumed before the enumeration starts
          MaxLen,
          Custom      \* extra table entries (function name -> entry)

T == Custom @@ BaseCmds

VARIABLES paths, toks
vars == <<paths, toks>>

Init == paths = {RunSeq(T, InitState, Prelude)} /\ toks = <<>>

Advance(PS, t) == UNION {IF p.v = "run" THEN Steps(T, p, t) ELSE {p} : p \in PS}

Next == /\ \E p \in paths : p.v = "run"
        /\ Len(toks) < MaxLen
        /\ \E i \in 1..Len(Vocab) :
              /\ paths' = Advance(paths, Vocab[i])
              /\ toks' = Append(toks, i)

Spec == Init /\ [][Next]_vars

\* -------------------------------------------------------------- emission
TreeOut(s) == [i \in 1..Len(s.nodes) |->
                 <<s.nodes[i].name, s.nodes[i].par, s.nodes[i].role, s.nodes[i].args, s.nodes[i].blk>>]
Out(s) == <<SetToSeq(s.devs), s.v, s.why, s.warg, s.bad, SetToSeq(s.irr),
            IF s.v = "acc" THEN TreeOut(s) ELSE <<>>, SetToSeq(s.loaded), s.irrat>>

RefPaths == {p \in paths : p.devs = {}}
Running == {p \in paths : p.v = "run"}
Emit == PrintT(ToJson(<<toks, Cardinality(Running),
                        SetToSeq({Out(q) : q \in Advance(paths, EOFTok)})>>))

\* ------------------------------------------------- simulation (deep scripts)
\* Random walks that stay inside the language: only tokens after which the
\* reference path is still running.  Used with `tlc -simulate'; a line is
\* printed for every prefix that is a complete valid script.
SimNext == /\ Len(toks) < MaxLen
           /\ \E i \in 1..Len(Vocab) :
                 LET nx == Advance(paths, Vocab[i]) IN
                 /\ \E p \in nx : p.devs = {} /\ p.v = "run" /\ p.irr = {}
                 /\ paths' = nx
                 /\ toks' = Append(toks, i)
SimSpec == Init /\ [][SimNext]_vars
EmitAcc == (\E q \in Advance(RefPaths, EOFTok) : q.v = "acc") => Emit

\* ------------------------------------------------------------ invariants
OneRefPath == Cardinality(RefPaths) = 1          \* the reference is deterministic
GatedInv == \A p \in paths : Gated(T, p)         \* C07 at design level
RejectSticksInv == \A p \in paths : RejectSticks(p)
\* C04 at design level: every accepted, regular script re-reads from its canonical serialisation
RoundTrip == \A p \in RefPaths : p.v = "run" =>
                LET e == RefStep(T, p, EOFTok) IN (e.v = "acc" /\ e.irr = {}) => RoundTripOf(T, e)
OneTokenPerStep == \A p \in paths : p.v = "run" => p.n = Len(Prelude) + Len(toks)
Progress == [][Len(toks') = Len(toks) + 1]_vars
=============================================================================
