------------------------------ MODULE MSCommon ------------------------------
(* Vocabulary shared by the ManageSieve session specifications. *)
EXTENDS Naturals, Sequences, FiniteSets, TLC, SequencesExt

Supported == <<"DIGEST-MD5", "PLAIN", "LOGIN", "OAUTHBEARER">>
ScriptVerbs == {"HAVESPACE", "LISTSCRIPTS", "GETSCRIPT", "PUTSCRIPT", "CHECKSCRIPT",
                "DELETESCRIPT", "RENAMESCRIPT", "SETACTIVE"}
Absent == <<"-absent-">>        \* no SASL capability line at all

InSeq(x, s) == \E i \in 1..Len(s) : s[i] = x

\* C16: the mechanism a correct client uses ("" = none qualifies)
ChooseMech(announced, pref) ==
  IF announced = Absent THEN ""
  ELSE IF InSeq(pref, Supported) THEN (IF InSeq(pref, announced) THEN pref ELSE "")
  ELSE LET S == {i \in 1..Len(Supported) : InSeq(Supported[i], announced)}
       IN IF S = {} THEN "" ELSE Supported[CHOOSE i \in S : \A j \in S : i <= j]

=============================================================================
