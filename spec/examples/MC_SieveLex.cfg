SPECIFICATION Spec
CONSTANTS
 Alphabet <- MCAlpha
 Prefix <- MCPrefix
 MaxLen = 3
INVARIANT LexProgress
INVARIANT Tiling
CHECK_DEADLOCK FALSE
