------------------------------ MODULE SieveProc ------------------------------
(***************************************************************************)
(* Calls into the library within one process (C13, and the call-level half *)
(* of C02).  The only state shared between calls is modelled explicitly:   *)
(*   gLoaded  the process-wide list of loaded extensions that every        *)
(*            Parser.parse() resets when it begins and fills while it      *)
(*            reads `require' commands;                                    *)
(*   left[p]  what parser object p keeps between calls (pending hash       *)
(*            comments of a failed parse).                                 *)
(* A call is Parse(p, s) for a script s of the pool or a filter-factory    *)
(* operation.  The property HistoryFree says that the outcome of every     *)
(* call is the outcome of the same call in a pristine process: Outcome is  *)
(* a function of the call alone.  The reference satisfies it because       *)
(* Parse resets before it reads and factory operations never read          *)
(* gLoaded; the two named deviations show what happens otherwise (TLC      *)
(* finds the two-step counterexamples when they are enabled).              *)
(* TLC enumerates every history up to MaxCalls; each is replayed in a      *)
(* forked child of a pristine interpreter and every step is compared with  *)
(* the same call made alone in its own pristine child.                     *)
(***************************************************************************)
EXTENDS Naturals, Sequences, FiniteSets, TLC, Json

CONSTANTS Scripts,        \* script ids
          Loads,          \* function script id -> set of extensions loaded when its parse ends
          Pending,        \* function script id -> TRUE if its parse ends with unattached hash comments
          Parsers,        \* parser object ids (a reused one, fresh ones)
          FsOps,          \* factory operation ids
          Needs,          \* function factory op -> extension a *reading* factory would look up ("" = none)
          MaxCalls,
          EnabledDevs

VARIABLES gLoaded, left, hist, outcomes
vars == <<gLoaded, left, hist, outcomes>>

Init == gLoaded = {} /\ left = [p \in Parsers |-> FALSE] /\ hist = <<>> /\ outcomes = <<>>

\* outcome of a call as a function of what it is allowed to depend on
Pristine(call) == <<call, "pristine">>

Parse(p, s) ==
  /\ Len(hist) < MaxCalls
  /\ hist' = Append(hist, <<"parse", p, s>>)
  /\ gLoaded' = Loads[s]                       \* reset at the beginning, filled by this script only
  /\ left' = [left EXCEPT ![p] = IF "Dev_CommentsSurviveFailure" \in EnabledDevs THEN Pending[s] ELSE FALSE]
  /\ outcomes' = Append(outcomes,
                        IF "Dev_CommentsSurviveFailure" \in EnabledDevs /\ left[p]
                        THEN <<<<"parse", s>>, "stale comments">> ELSE Pristine(<<"parse", s>>))

FsOp(o) ==
  /\ Len(hist) < MaxCalls
  /\ hist' = Append(hist, <<"fs", o>>)
  /\ UNCHANGED <<gLoaded, left>>
  /\ outcomes' = Append(outcomes,
                        IF "Dev_FactoryReadsGlobal" \in EnabledDevs /\ Needs[o] # "" /\ Needs[o] \in gLoaded
                        THEN <<<<"fs", o>>, "depends on gLoaded">> ELSE Pristine(<<"fs", o>>))

Next == (\E p \in Parsers, s \in Scripts : Parse(p, s)) \/ (\E o \in FsOps : FsOp(o))
Spec == Init /\ [][Next]_vars

HistoryFree == \A i \in 1..Len(outcomes) : outcomes[i][2] = "pristine"
Emit == (Len(hist) = MaxCalls) => PrintT(ToJson(hist))
=============================================================================
