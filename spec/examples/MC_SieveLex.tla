---- MODULE MC_SieveLex ----
EXTENDS SieveLex
MCAlpha == <<116, 58, 34, 92, 35, 47, 42, 46, 91, 32, 10, 13, 48>>
MCPrefix == <<>>

====
