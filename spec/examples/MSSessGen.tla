------------------------------ MODULE MSSessGen ------------------------------
(***************************************************************************)
(* Scenario generator for whole sessions (C15): a client performs MaxOps   *)
(* operations on a store that evolves by MSStore!Srv; for each operation   *)
(* the environment also picks how the server behaves where RFC 5804 leaves *)
(* it free: refuse a PUTSCRIPT/HAVESPACE (quota), encode names as quoted   *)
(* strings or literals, add a response code / text to OK.  Used with       *)
(* `tlc -simulate' (long sessions) and exhaustively for short ones.  The   *)
(* script printed at the end is replayed into the real client; its         *)
(* observed trace is then judged by MSStoreTrace.                          *)
(***************************************************************************)
EXTENDS MSStore

CONSTANTS MaxOps, InitStores, OpKinds

VARIABLES st, init, script, n
vars == <<st, init, script, n>>

Init == st \in InitStores /\ init = st /\ script = <<>> /\ n = 0

Encs == {"q", "l"}
Decor == {"plain", "text", "code"}

Step(op, a, b, refuse, enc, decor) ==
  /\ n < MaxOps
  /\ n' = n + 1 /\ UNCHANGED init
  /\ script' = Append(script, <<op, a, b, refuse, enc, decor>>)
  /\ st' = IF refuse THEN st
           ELSE CASE op = "putscript" -> Srv(st, Cmd("PUTSCRIPT", a, b)).st
                  [] op = "deletescript" -> Srv(st, Cmd("DELETESCRIPT", a, "")).st
                  [] op = "setactive" -> Srv(st, Cmd("SETACTIVE", a, "")).st
                  [] op = "renamescript" -> Srv(st, Cmd("RENAMESCRIPT", a, b)).st
                  [] OTHER -> st

Next ==
  \E op \in OpKinds, enc \in Encs, decor \in Decor :
     \/ op \in {"listscripts"} /\ Step(op, "", "", FALSE, enc, decor)
     \/ op \in {"getscript", "deletescript"} /\ \E a \in Names : Step(op, a, "", FALSE, enc, decor)
     \/ op = "setactive" /\ \E a \in Names \cup {None} : Step(op, a, "", FALSE, enc, decor)
     \/ op = "putscript" /\ \E a \in Names, b \in Bodies, r \in BOOLEAN : Step(op, a, b, r, enc, decor)
     \/ op = "havespace" /\ \E a \in Names, r \in BOOLEAN : Step(op, a, "", r, enc, decor)
     \/ op = "renamescript" /\ \E a \in Names, b \in Names : Step(op, a, b, FALSE, enc, decor)
     \/ op = "checkscript" /\ \E b \in Bodies, r \in BOOLEAN : Step(op, "", b, r, enc, decor)

Spec == Init /\ [][Next]_vars

WellFormed == st.active = None \/ Has(st, st.active)     \* the server never points at a missing script
Emit == (n = MaxOps) => PrintT(ToJson(<<SetToSeq({<<x, init.scripts[x]>> : x \in DOMAIN init.scripts}), init.active, script>>))
=============================================================================
