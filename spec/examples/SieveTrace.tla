------------------------------ MODULE SieveTrace ------------------------------
(***************************************************************************)
(* Trace mode of SieveGrammar: TLC is the oracle for token sequences that  *)
(* it did not generate itself (scripts recorded from the repository's own  *)
(* tests, seeded random scripts and their mutants, factory output, output  *)
(* of tosieve).  The batch file (IOEnv.TRACE_FILE) is a JSON array of      *)
(* records [id, toks]; a behaviour picks one trace in Init and consumes    *)
(* one token per step; when the trace is exhausted (or every path has      *)
(* stopped) one line is printed with the outcome of every path at end of   *)
(* input -- the same format as SieveEnum.                                  *)
(* Token values are opaque here (equality only).  The harness sends every value that has a character outside     *)
(* ASCII in an ASCII armour (prefix 0x02 + JSON escapes) and restores it in what is printed: TLC writes strings    *)
(* with one octet per character when states are spilled to its disk queue, which mangles such values in batches   *)
(* of more than ~15 000 traces.                                                                                    *)
(***************************************************************************)
EXTENDS SieveGrammar, Json, IOUtils, SequencesExt

CONSTANT Custom
T == Custom @@ BaseCmds

Traces == JsonDeserialize(IOEnv.TRACE_FILE)

VARIABLES tid, i, paths
vars == <<tid, i, paths>>

Advance(PS, t) == UNION {IF p.v = "run" THEN Steps(T, p, t) ELSE {p} : p \in PS}

Init == tid \in 1..Len(Traces) /\ i = 0 /\ paths = {InitState}

Live == \E p \in paths : p.v = "run"

Next == /\ i < Len(Traces[tid].toks) /\ Live
        /\ paths' = Advance(paths, Traces[tid].toks[i + 1])
        /\ i' = i + 1
        /\ UNCHANGED tid

Spec == Init /\ [][Next]_vars

TreeOut(s) == [j \in 1..Len(s.nodes) |->
                 <<s.nodes[j].name, s.nodes[j].par, s.nodes[j].role, s.nodes[j].args, s.nodes[j].blk>>]
Out(s) == <<SetToSeq(s.devs), s.v, s.why, s.warg, s.bad, SetToSeq(s.irr),
            IF s.v = "acc" THEN TreeOut(s) ELSE <<>>, SetToSeq(s.loaded), s.irrat>>

Done == i = Len(Traces[tid].toks) \/ ~Live
Emit == Done => PrintT(ToJson(<<Traces[tid].id, i, SetToSeq({Out(q) : q \in Advance(paths, EOFTok)})>>))

OneRefPath == Cardinality({p \in paths : p.devs = {}}) = 1
GatedInv == \A p \in paths : Gated(T, p)
=============================================================================
