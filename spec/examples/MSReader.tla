------------------------------ MODULE MSReader ------------------------------
(***************************************************************************)
(* The ManageSieve reply reader (RFC 5804 sections 1.2, 1.3, 4) under an   *)
(* arbitrary segmentation of the byte stream into recv() results.          *)
(*                                                                         *)
(* An *abstract reply* r is what the server means:                         *)
(*   [lines : sequence of data lines, a line = sequence of items,          *)
(*    st    : "OK" | "NO" | "BYE",                                         *)
(*    code  : response code atom as octets (<<>> = none),                  *)
(*    cargs : items inside the parentheses after the code atom,            *)
(*    text  : item, or NoItem]                                             *)
(* an item is [e, v]: e = "q" quoted string, "l" literal {n}, "a" atom;    *)
(* v = its octets.  Enc(r) is the wire form.  In data lines a literal is   *)
(* only used as the first item of a line (LISTSCRIPTS names, GETSCRIPT     *)
(* body: the only places servers use them).                                *)
(*                                                                         *)
(* The reader is written the way the client works: a carry-over buffer; a  *)
(* line mode (take up to CRLF, classify the line as literal marker /       *)
(* status line / data); a block mode (exactly n octets, asking recv only   *)
(* for what is still missing); the rest of a literal's line; literals in   *)
(* the status line (response-code arguments, human-readable text).  The    *)
(* network is the environment: Deliver(k) hands over the next k >= 1       *)
(* octets, k bounded by what the reader asked for and by Cap.  Between     *)
(* deliveries the reader runs until it needs more input (Run).             *)
(***************************************************************************)
EXTENDS Naturals, Sequences, FiniteSets, TLC, SequencesExt, FiniteSetsExt, Json

CONSTANTS ExploreEvery,   \* schedules are explored for every ExploreEvery-th reply (1 = all)
          Replies,        \* sequence of abstract replies (the corpus)
          Cap,            \* recv never returns more than Cap octets (0 = unlimited)
          EnabledDevs

CR == 13  LF == 10  SP == 32  HT == 9  DQ == 34  BS == 92
LBRACE == 123  RBRACE == 125  LPAR == 40  RPAR == 41  PLUS == 43
CRLF == <<CR, LF>>
NoItem == [e |-> "none", v |-> <<>>]

\* ------------------------------------------------------------ wire form
RECURSIVE Dec(_)
Dec(n) == IF n < 10 THEN <<48 + n>> ELSE Dec(n \div 10) \o <<48 + (n % 10)>>

RECURSIVE Esc(_)
Esc(v) == IF v = <<>> THEN <<>>
          ELSE (IF Head(v) \in {DQ, BS} THEN <<BS, Head(v)>> ELSE <<Head(v)>>) \o Esc(Tail(v))

EncItem(it) == CASE it.e = "q" -> <<DQ>> \o Esc(it.v) \o <<DQ>>
                 [] it.e = "l" -> <<LBRACE>> \o Dec(Len(it.v)) \o <<RBRACE>> \o CRLF \o it.v
                 [] OTHER -> it.v

RECURSIVE EncItems(_)
EncItems(items) == IF items = <<>> THEN <<>>
                   ELSE IF Len(items) = 1 THEN EncItem(items[1])
                   ELSE EncItem(items[1]) \o <<SP>> \o EncItems(Tail(items))

RECURSIVE EncLines(_)
EncLines(ls) == IF ls = <<>> THEN <<>> ELSE EncItems(Head(ls)) \o CRLF \o EncLines(Tail(ls))

Atom(s) == CASE s = "OK" -> <<79, 75>> [] s = "NO" -> <<78, 79>> [] OTHER -> <<66, 89, 69>>

StatusTail(r, enc(_)) ==    \* the status line after the atom, items written by enc
  (IF r.code = <<>> THEN <<>>
   ELSE <<SP, LPAR>> \o r.code
        \o (IF r.cargs = <<>> THEN <<>>
            ELSE <<SP>> \o (LET RECURSIVE J(_)
                                J(xs) == IF Len(xs) = 1 THEN enc(xs[1]) ELSE enc(xs[1]) \o <<SP>> \o J(Tail(xs))
                            IN J(r.cargs)))
        \o <<RPAR>>)
  \o (IF r.text.e = "none" THEN <<>> ELSE <<SP>> \o enc(r.text))

EncStatus(r) == Atom(r.st) \o StatusTail(r, EncItem) \o CRLF
Enc(r) == EncLines(r.lines) \o EncStatus(r)

\* --------------------------------------------- what the reader must deliver
\* `resp': the data part with literal markers removed (a literal contributes its
\* octets, then the rest of its line); `rest': the status line after the atom with
\* every literal replaced by its octets.
RespItem(it) == IF it.e = "l" THEN it.v ELSE EncItem(it)
RECURSIVE RespItems(_)
RespItems(items) == IF items = <<>> THEN <<>>
                    ELSE IF Len(items) = 1 THEN RespItem(items[1])
                    ELSE RespItem(items[1]) \o <<SP>> \o RespItems(Tail(items))
EndsCRLF(s) == Len(s) >= 2 /\ s[Len(s) - 1] = CR /\ s[Len(s)] = LF
\* after a literal that is alone on its line and ends in CRLF no further CRLF is added
RespLine(items) == LET b == RespItems(items) IN
                   IF Len(items) = 1 /\ items[1].e = "l" /\ EndsCRLF(b) THEN b ELSE b \o CRLF
RECURSIVE RespLines(_)
RespLines(ls) == IF ls = <<>> THEN <<>> ELSE RespLine(Head(ls)) \o RespLines(Tail(ls))
RECURSIVE SkipWs(_)
SkipWs(b) == IF b # <<>> /\ Head(b) \in {SP, HT} THEN SkipWs(Tail(b)) ELSE b
ExpectRest(r) == SkipWs(StatusTail(r, RespItem))

\* ------------------------------------------------------------ the reader
IndexCRLF(b) == LET S == {i \in 1..(Len(b) - 1) : b[i] = CR /\ b[i + 1] = LF}
                IN IF S = {} THEN 0 ELSE Min(S)

IsDigit(x) == x \in 48..57
RECURSIVE NumVal(_, _)
NumVal(d, acc) == IF d = <<>> THEN acc ELSE NumVal(Tail(d), acc * 10 + (Head(d) - 48))
None == 0 - 1

\* b is exactly `{' 1*DIGIT [`+'] `}' -> the number, else None
Marker(b) ==
  LET n == Len(b)
      hasPlus == n >= 4 /\ b[n - 1] = PLUS
      last == IF hasPlus THEN n - 2 ELSE n - 1
  IN IF n >= 3 /\ b[1] = LBRACE /\ b[n] = RBRACE /\ last >= 2
        /\ \A i \in 2..last : IsDigit(b[i])
     THEN NumVal(SubSeq(b, 2, last), 0) ELSE None

\* position of a trailing literal marker (a token of its own) in a status-line piece, 0 if none
TrailingMarker(b) ==
  LET S == {j \in 1..Len(b) : b[j] = LBRACE /\ (j = 1 \/ b[j - 1] = SP) /\ Marker(SubSeq(b, j, Len(b))) # None}
  IN IF S = {} THEN 0 ELSE Min(S)

StartsWith(b, p) == Len(b) >= Len(p) /\ SubSeq(b, 1, Len(p)) = p
StatusOf(line) == IF StartsWith(line, <<79, 75>>) THEN "OK"
                  ELSE IF StartsWith(line, <<78, 79>>) THEN "NO"
                  ELSE IF StartsWith(line, <<66, 89, 69>>) THEN "BYE" ELSE ""

\* reader state: mode \in "line" | "block" (data literal) | "cont" (rest of a literal's line)
\*                      | "sblock" (literal inside the status line) | "scont" | "done"
C0 == [buf |-> <<>>, mode |-> "line", need |-> 0, resp |-> <<>>, status |-> "", rest |-> <<>>, nlit |-> 0]

\* a piece of the status line: either it ends in a literal marker (read the block, then go on)
\* or it is the end of the reply
StatusPiece(c, piece) ==
  LET j == TrailingMarker(piece) IN
  IF j = 0 THEN [c EXCEPT !.mode = "done", !.rest = @ \o piece]
  ELSE [c EXCEPT !.mode = "sblock", !.rest = @ \o SubSeq(piece, 1, j - 1),
                 !.need = Marker(SubSeq(piece, j, Len(piece))), !.nlit = @ + 1]

RECURSIVE Run(_)
Run(c) ==
  CASE c.mode \in {"line", "cont", "scont"} ->
         LET i == IndexCRLF(c.buf) IN
         IF i = 0 THEN c
         ELSE LET line == SubSeq(c.buf, 1, i - 1)
                  c1 == [c EXCEPT !.buf = SubSeq(c.buf, i + 2, Len(c.buf))]
              IN
              IF c.mode = "scont" THEN Run(StatusPiece(c1, line))
              ELSE IF c.mode = "cont" THEN Run([c1 EXCEPT !.mode = "line", !.resp = @ \o line \o CRLF])
              ELSE IF line = <<>> THEN Run(c1)
              ELSE IF Marker(line) # None THEN
                 Run([c1 EXCEPT !.mode = "block", !.need = Marker(line), !.nlit = @ + 1])
              ELSE IF StatusOf(line) # "" THEN
                 Run(StatusPiece([c1 EXCEPT !.status = StatusOf(line)],
                                 SkipWs(SubSeq(line, Len(Atom(StatusOf(line))) + 1, Len(line)))))
              ELSE Run([c1 EXCEPT !.resp = @ \o line \o CRLF])
    [] c.mode \in {"block", "sblock"} ->
         LET k == IF Len(c.buf) < c.need THEN Len(c.buf) ELSE c.need
             got == SubSeq(c.buf, 1, k)
             c1 == [c EXCEPT !.buf = SubSeq(c.buf, k + 1, Len(c.buf)), !.need = @ - k,
                             !.resp = IF c.mode = "block" THEN @ \o got ELSE @,
                             !.rest = IF c.mode = "sblock" THEN @ \o got ELSE @]
         IN IF c1.need > 0 THEN c1
            ELSE IF c.mode = "sblock" THEN Run([c1 EXCEPT !.mode = "scont"])
            ELSE IF EndsCRLF(c1.resp) THEN Run([c1 EXCEPT !.mode = "line"])
            ELSE Run([c1 EXCEPT !.mode = "cont"])
    [] OTHER -> c

\* ------------------------------------------------------------- behaviours
VARIABLES rid, sent, c
vars == <<rid, sent, c>>

R == Replies[rid]
Stream == Enc(R)

Init == rid \in 1..Len(Replies) /\ sent = 0 /\ c = C0

\* how many octets the reader asks recv for in its current state
Request == IF c.mode \in {"block", "sblock"} THEN c.need ELSE 4096

Deliver(k) == /\ c.mode # "done"
              /\ rid % ExploreEvery = 0
              /\ sent + k <= Len(Stream)
              /\ k <= Request
              /\ (Cap = 0 \/ k <= Cap)
              /\ sent' = sent + k
              /\ c' = Run([c EXCEPT !.buf = @ \o SubSeq(Stream, sent + 1, sent + k)])
              /\ UNCHANGED rid

Next == \E k \in 1..Len(Stream) : Deliver(k)
Spec == Init /\ [][Next]_vars
FairSpec == Spec /\ WF_vars(Next)

\* ------------------------------------------------------------ properties
\* C05: whatever the schedule, the result is the abstract reply and nothing is left over
SegmentationFree ==
  c.mode = "done" =>
     /\ c.resp = RespLines(R.lines)
     /\ c.status = R.st
     /\ c.rest = ExpectRest(R)
     /\ c.buf = <<>>
     /\ sent = Len(Stream)

\* C05: a literal is consumed as exactly n octets: while a block is being read the reader
\* holds nothing back (it took everything it had) and never asks for more than is missing
LiteralExact == c.mode \in {"block", "sblock"} => (c.need > 0 /\ c.buf = <<>>)

\* C17: the number of literals the reader recognised is the number the server sent --
\* octets inside a literal were never read as a marker, and no marker was read as data
NLit(r) == Cardinality({i \in 1..Len(r.lines) : r.lines[i][1].e = "l"})
           + Cardinality({i \in 1..Len(r.cargs) : r.cargs[i].e = "l"})
           + (IF r.text.e = "l" THEN 1 ELSE 0)
DataNeverProtocol == c.mode = "done" => c.nlit = NLit(R)

\* the reader never returns early and never waits once everything was delivered
NoEarlyReturn == c.mode = "done" => sent = Len(Stream)
NeverStuck == sent = Len(Stream) => c.mode = "done"

Terminates == <>(c.mode = "done")

\* -------------------------------------------------------------- emission
\* one line per reply: its wire form (the oracle for everything else is the abstract
\* reply the harness already holds)
Emit == (sent = 0) => PrintT(ToJson(<<rid, Enc(R), RespLines(R.lines), ExpectRest(R)>>))
=============================================================================
