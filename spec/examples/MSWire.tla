------------------------------- MODULE MSWire -------------------------------
(***************************************************************************)
(* One client call = one command on the wire (RFC 5804 section 4).         *)
(* Encode: how a string argument may be written (quoted with \ and "        *)
(* escaped, or a non-synchronising literal when it holds CR, LF or NUL);    *)
(* Decode: the *server-side* parser of a command line, octet by octet.      *)
(* TLC checks, for every value over a hostile alphabet up to MaxLen         *)
(* symbols and every argument position, that the encoding is self-          *)
(* delimiting and faithful:  Decode(Encode(verb, args)) = <<[verb, args]>>  *)
(* -- exactly one command, arguments intact, nothing left over.             *)
(* It prints each value with its reference encoding: the harness checks its *)
(* own strict decoder against them and then applies that decoder to what    *)
(* the real client writes.                                                  *)
(***************************************************************************)
EXTENDS Naturals, Sequences, FiniteSets, TLC, SequencesExt, Json

CONSTANTS Symbols,    \* sequence of octet sequences (one per symbol of the alphabet)
          MaxLen

CR == 13  LF == 10  SP == 32  DQ == 34  BS == 92  NUL == 0
LBRACE == 123  RBRACE == 125  PLUS == 43
CRLF == <<CR, LF>>

RECURSIVE Flat(_)
Flat(ss) == IF ss = <<>> THEN <<>> ELSE Symbols[Head(ss)] \o Flat(Tail(ss))

RECURSIVE Dec(_)
Dec(n) == IF n < 10 THEN <<48 + n>> ELSE Dec(n \div 10) \o <<48 + (n % 10)>>
RECURSIVE Esc(_)
Esc(v) == IF v = <<>> THEN <<>>
          ELSE (IF Head(v) \in {DQ, BS} THEN <<BS, Head(v)>> ELSE <<Head(v)>>) \o Esc(Tail(v))

NeedsLiteral(v) == \E i \in 1..Len(v) : v[i] \in {CR, LF, NUL}
EncQuoted(v) == <<DQ>> \o Esc(v) \o <<DQ>>
EncLiteral(v) == <<LBRACE>> \o Dec(Len(v)) \o <<PLUS, RBRACE>> \o CRLF \o v
EncStr(v) == IF NeedsLiteral(v) THEN EncLiteral(v) ELSE EncQuoted(v)

\* -------- the server's parser of one string starting at position i of d: [ok, v, next]
Bad == [ok |-> FALSE, v |-> <<>>, next |-> 0]
RECURSIVE Quoted(_, _, _)
Quoted(d, j, acc) ==
  IF j > Len(d) THEN Bad
  ELSE IF d[j] = BS THEN (IF j + 1 <= Len(d) /\ d[j + 1] \in {DQ, BS} THEN Quoted(d, j + 2, Append(acc, d[j + 1])) ELSE Bad)
  ELSE IF d[j] = DQ THEN [ok |-> TRUE, v |-> acc, next |-> j + 1]
  ELSE IF d[j] \in {CR, LF, NUL} THEN Bad
  ELSE Quoted(d, j + 1, Append(acc, d[j]))

IsDigit(x) == x \in 48..57
RECURSIVE Num(_, _, _)
Num(d, j, acc) == IF j <= Len(d) /\ IsDigit(d[j]) THEN Num(d, j + 1, acc * 10 + (d[j] - 48)) ELSE [n |-> acc, next |-> j]

DecStr(d, i) ==
  IF i > Len(d) THEN Bad
  ELSE IF d[i] = DQ THEN Quoted(d, i + 1, <<>>)
  ELSE IF d[i] = LBRACE /\ i + 1 <= Len(d) /\ IsDigit(d[i + 1]) THEN
       LET nm == Num(d, i + 1, 0)
           j == nm.next
       IN IF j + 3 <= Len(d) /\ d[j] = PLUS /\ d[j + 1] = RBRACE /\ d[j + 2] = CR /\ d[j + 3] = LF
             /\ j + 3 + nm.n <= Len(d)
          THEN [ok |-> TRUE, v |-> SubSeq(d, j + 4, j + 3 + nm.n), next |-> j + 4 + nm.n]
          ELSE Bad
  ELSE Bad

\* a command with two string arguments after a fixed verb of length L: VERB SP s1 SP s2 CRLF
Cmd2(verb, a, b) == verb \o <<SP>> \o EncStr(a) \o <<SP>> \o EncStr(b) \o CRLF
DecCmd2(verb, d) ==
  LET i == Len(verb) + 1 IN
  IF SubSeq(d, 1, Len(verb)) # verb \/ i > Len(d) \/ d[i] # SP THEN Bad
  ELSE LET s1 == DecStr(d, i + 1) IN
       IF ~s1.ok \/ s1.next > Len(d) \/ d[s1.next] # SP THEN Bad
       ELSE LET s2 == DecStr(d, s1.next + 1) IN
            IF ~s2.ok \/ SubSeq(d, s2.next, Len(d)) # CRLF THEN Bad
            ELSE [ok |-> TRUE, v |-> <<s1.v, s2.v>>, next |-> Len(d) + 1]

Verb == <<82, 69, 78, 65, 77, 69, 83, 67, 82, 73, 80, 84>>    \* RENAMESCRIPT

VARIABLES a, b
Idx == UNION {[1..n -> 1..Len(Symbols)] : n \in 0..MaxLen}
Init == a \in Idx /\ b \in {<<>>, <<1>>, a}
Next == UNCHANGED <<a, b>>
Spec == Init /\ [][Next]_<<a, b>>

RoundTrip == LET va == Flat(a)  vb == Flat(b)
                 d == DecCmd2(Verb, Cmd2(Verb, va, vb))
             IN d.ok /\ d.v = <<va, vb>>
\* no value can end the command early: the only CRLF outside a literal is the last two octets
SelfDelimiting == LET e == EncStr(Flat(a)) IN
                  ~NeedsLiteral(Flat(a)) => \A i \in 1..Len(e) : e[i] \notin {CR, LF}

Emit == (b = <<>>) => PrintT(ToJson(<<Flat(a), EncStr(Flat(a))>>))
=============================================================================
