---------------------------- MODULE MSStoreTrace ----------------------------
(***************************************************************************)
(* Trace validation for C14 / C15.  A trace is what happened in one        *)
(* session of the real client against a scripted server:                   *)
(*   ["init", <<<<name, body>>, ...>>, active]                              *)
(*   ["call", op, a, b]           the API call                              *)
(*   ["cmd", verb, a, b]          a command the client wrote (strictly      *)
(*                                decoded; verb "MALFORMED" if it was not)  *)
(*   ["reply", status, code, data, fault]                                   *)
(*        what the server answered; fault = "" (normal), "NO"/"BYE"/        *)
(*        "silence" (command not executed), "lost" (executed, reply lost)   *)
(*   ["leftover", n]              octets of replies the client left unread  *)
(*   ["ret", kind, value]         the call's outcome                        *)
(* The specification re-executes every command with MSStore!Srv (so the    *)
(* scripted server is checked, not trusted), keeps the store, and judges   *)
(* every return: C14 clauses for an emulated rename, C15 clauses for all.  *)
(* One line per trace: id, first violated clause, event index.             *)
(***************************************************************************)
EXTENDS MSStore, IOUtils

Traces == JsonDeserialize(IOEnv.TRACE_FILE)

VARIABLES tid, i, st, st0, call, ncmd, last, sawno, bad, badat
vars == <<tid, i, st, st0, call, ncmd, last, sawno, bad, badat>>

Empty == [scripts |-> <<>>, active |-> None]
NoCall == [op |-> "", a |-> "", b |-> ""]
NoReply == [status |-> "", fault |-> ""]

Init == /\ tid \in 1..Len(Traces) /\ i = 0 /\ st = Empty /\ st0 = Empty /\ call = NoCall
        /\ ncmd = 0 /\ last = NoReply /\ sawno = FALSE /\ bad = "" /\ badat = 0

E == Traces[tid].ev[i + 1]
Flag(clause) == /\ bad' = IF bad = "" /\ clause # "" THEN clause ELSE bad
                /\ badat' = IF bad = "" /\ clause # "" THEN i + 1 ELSE badat

AsSet(s) == {s[k] : k \in 1..Len(s)}

\* the scripted server's answer must be what the specification's server says
ReplyClause(cmd, status, code, data, fault) ==
  LET r == Srv(st, cmd).reply IN
  IF fault # "" THEN ""
  ELSE IF status # r.status \/ (status = "NO" /\ code # r.code) THEN "ServerDoubleWrong"
  ELSE IF cmd.verb = "LISTSCRIPTS" /\ {<<x[1], x[2]>> : x \in AsSet(data)} # AsSet(r.data) THEN "ServerDoubleWrong"
  ELSE IF cmd.verb = "GETSCRIPT" /\ status = "OK" /\ data # r.data THEN "ServerDoubleWrong"
  ELSE ""

Names1(s) == {n \in DOMAIN s.scripts : n # s.active}

RetClause(kind, value) ==
  LET op == call.op IN
  IF last.fault \in {"BYE", "silence", "lost"} \/ last.status = "BYE"
  THEN (IF kind # "error" THEN "ErrorExpected" ELSE "")
  ELSE IF kind = "raise" THEN "Raises"
  ELSE IF op = "renamescript_emulated" THEN
       (IF kind \notin {"true", "false", "error"} THEN "RenameFailsCleanly"
        ELSE IF ~RenameNoLoss(st0, st, call.a, call.b) THEN "RenameNoLoss"
        ELSE IF ~RenameNoOverwrite(st0, st, call.a, call.b) THEN "RenameNoOverwrite"
        ELSE IF kind = "true" /\ ~RenameSuccessPost(st0, st, call.a, call.b) THEN "RenameSuccessPost"
        \* C09 for the multi-step operation: False needs a NO (or a name clash the client saw in the listing)
        ELSE IF kind = "false" /\ ~sawno /\ Has(st0, call.a) /\ ~Has(st0, call.b) THEN "ResultMirrorsStatus"
        ELSE IF kind = "true" /\ sawno THEN "ResultMirrorsStatus"
        ELSE "")
  ELSE IF ncmd = 0 THEN "NoCommandSent"
  ELSE IF op = "listscripts" THEN
       (IF last.status = "NO" THEN (IF kind # "none" THEN "ResultMirrorsStatus" ELSE "")
        ELSE IF kind # "list" THEN "ResultMirrorsStatus"
        ELSE IF value[1] # st.active \/ AsSet(value[2]) # Names1(st) \/ Len(value[2]) # Cardinality(Names1(st))
             THEN "ViewMatchesStore" ELSE "")
  ELSE IF op = "getscript" THEN
       (IF last.status = "NO" THEN (IF kind # "none" THEN "ResultMirrorsStatus" ELSE "")
        ELSE IF kind # "body" THEN "ResultMirrorsStatus"
        ELSE IF ~Has(st, call.a) \/ value # st.scripts[call.a] THEN "ViewMatchesStore" ELSE "")
  ELSE (IF last.status = "OK" /\ kind # "true" THEN "ResultMirrorsStatus"
        ELSE IF last.status = "NO" /\ kind # "false" THEN "ResultMirrorsStatus"
        ELSE IF op = "putscript" /\ kind = "true" /\ ~(Has(st, call.a) /\ st.scripts[call.a] = call.b) THEN "ViewMatchesStore"
        ELSE IF op = "deletescript" /\ kind = "true" /\ Has(st, call.a) THEN "ViewMatchesStore"
        ELSE IF op = "setactive" /\ kind = "true" /\ st.active # call.a THEN "ViewMatchesStore"
        ELSE "")

VARIABLE pend      \* the command waiting for its reply
Next ==
  /\ i < Len(Traces[tid].ev)
  /\ i' = i + 1
  /\ UNCHANGED tid
  /\ CASE E[1] = "init" ->
            /\ st' = [scripts |-> [n \in {E[2][k][1] : k \in 1..Len(E[2])} |->
                                       E[2][CHOOSE k \in 1..Len(E[2]) : E[2][k][1] = n][2]],
                      active |-> E[3]]
            /\ UNCHANGED <<st0, call, ncmd, last, sawno, bad, badat, pend>>
       [] E[1] = "call" ->
            /\ call' = [op |-> E[2], a |-> E[3], b |-> E[4]]
            /\ st0' = st /\ ncmd' = 0 /\ last' = NoReply /\ sawno' = FALSE
            /\ UNCHANGED <<st, bad, badat, pend>>
       [] E[1] = "cmd" ->
            /\ pend' = [verb |-> E[2], a |-> E[3], b |-> E[4]]
            /\ ncmd' = ncmd + 1
            /\ Flag(IF E[2] = "MALFORMED" THEN "MalformedCommand"
                    ELSE IF E[2] = "PUTSCRIPT" /\ E[4] = "?" THEN "ContentMangled" ELSE "")
            /\ UNCHANGED <<st, st0, call, last, sawno>>
       [] E[1] = "reply" ->
            /\ Flag(ReplyClause(pend, E[2], E[3], E[4], E[5]))
            /\ st' = IF E[5] \in {"", "lost"} THEN Srv(st, pend).st ELSE st
            /\ last' = [status |-> E[2], fault |-> E[5]]
            /\ sawno' = (sawno \/ E[2] = "NO")
            /\ UNCHANGED <<st0, call, ncmd, pend>>
       [] E[1] = "leftover" ->
            /\ Flag(IF E[2] > 0 /\ last.fault = "" /\ last.status # "BYE" THEN "OutOfStep" ELSE "")
            /\ UNCHANGED <<st, st0, call, ncmd, last, sawno, pend>>
       [] OTHER ->
            /\ Flag(RetClause(E[2], E[3]))
            /\ UNCHANGED <<st, st0, call, ncmd, last, sawno, pend>>

TInit == Init /\ pend = [verb |-> "", a |-> "", b |-> ""]
Spec == TInit /\ [][Next]_<<vars, pend>>
Emit == (i = Len(Traces[tid].ev)) => PrintT(ToJson(<<Traces[tid].id, bad, badat>>))
=============================================================================
