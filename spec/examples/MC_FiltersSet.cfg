SPECIFICATION Spec
CONSTANTS
 Names = {"N1", "N2"}
 Unknown = "NX"
 Defs = {"D1", "D2"}
 Descs = {"", "d"}
 MaxOps = 2
 InitFs <- MCInitFs
 Ops = {"add", "update", "replace", "remove", "enable", "disable", "move", "reload"}
 EnabledDevs = {}
INVARIANT UniqueNames
INVARIANT StepProps
CHECK_DEADLOCK FALSE
