------------------------------- MODULE SieveLex -------------------------------
(***************************************************************************)
(* The lexical level of Sieve (RFC 5228 section 8.1): octets -> tokens.    *)
(* Lex(inp) is a pure operator returning the token list                    *)
(*   <<kind, start, length>>  (1-based start, in octets)                   *)
(* and, if some octet sequence is no token, the offset where lexing        *)
(* stops.  One rule per token class, each consuming at least one octet     *)
(* (LexProgress holds by construction and is checked: the positions are    *)
(* strictly increasing), white space and comments produce no token, and    *)
(* tokens, white space and comments tile the consumed prefix (Tiling).     *)
(*                                                                         *)
(* TLC enumerates every input over an alphabet of hostile octets up to     *)
(* MaxLen, optionally after a fixed prefix (so that the long openers       *)
(* `text:', `"', `/*' are explored behind), and prints input and result;   *)
(* the harness feeds the same octets to sievelib.parser.Lexer (and to its  *)
(* own independent lexer) and compares token kinds, spans and the error    *)
(* offset.  Inputs with a bare CR are flagged (outside the exercised       *)
(* alphabet, DESIGN 2.4).                                                  *)
(***************************************************************************)
EXTENDS Naturals, Sequences, FiniteSets, TLC, Json

CONSTANTS Alphabet,     \* sequence of octets
          Prefix,       \* octets put before every enumerated input
          MaxLen

SP == 32  HT == 9  LF == 10  CR == 13  DQ == 34  BS == 92  HASH == 35
SLASH == 47  STAR == 42  DOT == 46  COLON == 58  USCORE == 95

IsAlpha(b) == (b \in 65..90) \/ (b \in 97..122) \/ b = USCORE
IsDigit(b) == b \in 48..57
IsIdCont(b) == IsAlpha(b) \/ IsDigit(b)
PunctKind(b) == CASE b = 91 -> "lb" [] b = 93 -> "rb" [] b = 40 -> "lp" [] b = 41 -> "rp"
                  [] b = 123 -> "lc" [] b = 125 -> "rc" [] b = 59 -> "semi" [] b = 44 -> "comma" [] OTHER -> ""

At(d, i) == IF i <= Len(d) THEN d[i] ELSE 0 - 1
StartsAt(d, i, p) == i + Len(p) - 1 <= Len(d) /\ SubSeq(d, i, i + Len(p) - 1) = p

RECURSIVE SkipBlank(_, _), SkipIdCont(_, _), SkipDigits(_, _)
SkipBlank(d, i) == IF i <= Len(d) /\ d[i] \in {SP, HT} THEN SkipBlank(d, i + 1) ELSE i
SkipIdCont(d, i) == IF i <= Len(d) /\ IsIdCont(d[i]) THEN SkipIdCont(d, i + 1) ELSE i
SkipDigits(d, i) == IF i <= Len(d) /\ IsDigit(d[i]) THEN SkipDigits(d, i + 1) ELSE i

RECURSIVE FindLF(_, _)      \* index of the next LF at or after i, 0 if none
FindLF(d, i) == IF i > Len(d) THEN 0 ELSE IF d[i] = LF THEN i ELSE FindLF(d, i + 1)

RECURSIVE FindStarSlash(_, _)
FindStarSlash(d, i) == IF i + 1 > Len(d) THEN 0 ELSE IF d[i] = STAR /\ d[i + 1] = SLASH THEN i ELSE FindStarSlash(d, i + 1)

RECURSIVE QuotedEnd(_, _)   \* index of the closing quote of a string whose content starts at i, 0 if none
QuotedEnd(d, i) == IF i > Len(d) THEN 0
                   ELSE IF d[i] = BS THEN (IF i + 1 > Len(d) THEN 0 ELSE QuotedEnd(d, i + 2))
                   ELSE IF d[i] = DQ THEN i
                   ELSE QuotedEnd(d, i + 1)

\* multi-line: "text:" *(SP/HT) (hash-comment / CRLF|LF) *line "." (CRLF|LF|end)
\* -> index of the closing dot, 0 if the octets at i do not start a complete multi-line string
RECURSIVE DotLine(_, _)
DotLine(d, j) ==      \* j: start of a line
  IF j > Len(d) THEN 0
  ELSE LET k == FindLF(d, j)
           lineEnd == IF k = 0 THEN Len(d) ELSE k - 1
           rawEnd == IF lineEnd >= j /\ d[lineEnd] = CR THEN lineEnd - 1 ELSE lineEnd
       IN IF rawEnd = j /\ d[j] = DOT THEN j
          ELSE IF k = 0 THEN 0
          ELSE DotLine(d, k + 1)

MultiLineDot(d, i) ==
  IF ~StartsAt(d, i, <<116, 101, 120, 116, 58>>) THEN 0
  ELSE LET j == SkipBlank(d, i + 5)
       IN IF At(d, j) = HASH THEN (IF FindLF(d, j) = 0 THEN 0 ELSE DotLine(d, FindLF(d, j) + 1))
          ELSE IF At(d, j) = CR /\ At(d, j + 1) = LF THEN DotLine(d, j + 2)
          ELSE IF At(d, j) = LF THEN DotLine(d, j + 1)
          ELSE 0

\* result: [toks, err (0 = none, else 1-based offset of the octets that are no token), dc]
RECURSIVE LexFrom(_, _, _, _)
LexFrom(d, i, toks, dc) ==
  IF i > Len(d) THEN [toks |-> toks, err |-> 0, dc |-> dc]
  ELSE LET b == d[i]
           Tok(k, j) == LexFrom(d, j, Append(toks, <<k, i, j - i>>), dc)     \* token [i, j)
           Fail == [toks |-> toks, err |-> i, dc |-> dc]
       IN
       IF b \in {SP, HT, LF} THEN LexFrom(d, i + 1, toks, dc)
       ELSE IF b = CR THEN LexFrom(d, i + 1, toks, dc \/ At(d, i + 1) # LF)
       ELSE IF b = HASH THEN (IF FindLF(d, i) = 0 THEN [toks |-> toks, err |-> 0, dc |-> TRUE]
                              ELSE LexFrom(d, FindLF(d, i) + 1, toks, dc))
       ELSE IF b = SLASH /\ At(d, i + 1) = STAR THEN
            (IF FindStarSlash(d, i + 2) = 0 THEN Fail ELSE LexFrom(d, FindStarSlash(d, i + 2) + 2, toks, dc))
       ELSE IF PunctKind(b) # "" THEN Tok(PunctKind(b), i + 1)
       ELSE IF b = DQ THEN (IF QuotedEnd(d, i + 1) = 0 THEN Fail ELSE Tok("str", QuotedEnd(d, i + 1) + 1))
       ELSE IF MultiLineDot(d, i) # 0 THEN
            \* a lone CR inside a line of the text is outside the grammar (octet-not-crlf): flagged, not judged
            LexFrom(d, MultiLineDot(d, i) + 1, Append(toks, <<"ml", i, MultiLineDot(d, i) + 1 - i>>),
                    dc \/ \E k \in i..MultiLineDot(d, i) : d[k] = CR /\ At(d, k + 1) # LF)
       ELSE IF IsAlpha(b) THEN Tok("id", SkipIdCont(d, i + 1))
       ELSE IF b = COLON /\ IsAlpha(At(d, i + 1)) THEN Tok("tag", SkipIdCont(d, i + 2))
       ELSE IF IsDigit(b) THEN
            LET j == SkipDigits(d, i + 1)
            IN Tok("num", IF At(d, j) \in {75, 77, 71, 107, 109, 103} THEN j + 1 ELSE j)
       ELSE Fail

Lex(d) == LexFrom(d, 1, <<>>, FALSE)

\* ------------------------------------------------------------ enumeration
VARIABLE inp
Inputs == UNION {[1..n -> 1..Len(Alphabet)] : n \in 0..MaxLen}
Octets(x) == Prefix \o [k \in 1..Len(x) |-> Alphabet[x[k]]]
Init == inp \in Inputs
Next == UNCHANGED inp
Spec == Init /\ [][Next]_inp

R == Lex(Octets(inp))
\* positions strictly increase, tokens do not overlap, nothing after an error is tokenised
LexProgress == \A k \in 1..Len(R.toks) :
                  /\ R.toks[k][3] >= 1
                  /\ (k > 1 => R.toks[k][2] >= R.toks[k - 1][2] + R.toks[k - 1][3])
                  /\ (R.err # 0 => R.toks[k][2] + R.toks[k][3] <= R.err)
                  /\ R.toks[k][2] + R.toks[k][3] - 1 <= Len(Octets(inp))
\* gaps between tokens hold only white space and comments: no octet of a gap is a letter, digit
\* or punctuation outside a comment -- checked in its simplest useful form: a gap never starts a token
Tiling == \A k \in 1..Len(R.toks) :
             LET gapStart == IF k = 1 THEN 1 ELSE R.toks[k - 1][2] + R.toks[k - 1][3]
             IN gapStart < R.toks[k][2] =>
                  Octets(inp)[gapStart] \in {SP, HT, LF, CR, HASH, SLASH}

Emit == PrintT(ToJson(<<Octets(inp), R.toks, R.err, R.dc>>))
=============================================================================
