---- MODULE MC_SieveProc ----
EXTENDS SieveProc
MCLoads == (("S1" :> {}) @@ ("S2" :> {"regex"}) @@ ("S9" :> {}))
MCPending == (("S1" :> FALSE) @@ ("S2" :> FALSE) @@ ("S9" :> TRUE))
MCNeeds == (("F2" :> "regex") @@ ("F4" :> ""))

====
