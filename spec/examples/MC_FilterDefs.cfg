SPECIFICATION Spec
CONSTANTS
 Conds <- MCConds
 Acts <- MCActs
 Pairs = FALSE
 EnabledDevs = {}
INVARIANT SkeletonValid
INVARIANT RequireExact
CHECK_DEADLOCK FALSE
