SPECIFICATION Spec
CONSTANTS
 Scripts = {"S1", "S2", "S9"}
 Loads <- MCLoads
 Pending <- MCPending
 Parsers = {"reused", "fresh"}
 FsOps = {"F2", "F4"}
 Needs <- MCNeeds
 MaxCalls = 3
 EnabledDevs = {}
INVARIANT HistoryFree
CHECK_DEADLOCK FALSE
