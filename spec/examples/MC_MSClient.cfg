SPECIFICATION FairSpec
CONSTANTS
 Replies <- MCReplies
 Cap = 0
 ExploreEvery = 1
 EnabledDevs = {}
INVARIANT SegmentationFree
INVARIANT LiteralExact
INVARIANT DataNeverProtocol
INVARIANT NoEarlyReturn
INVARIANT NeverStuck
PROPERTY Terminates
CHECK_DEADLOCK FALSE
