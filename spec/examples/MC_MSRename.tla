---- MODULE MC_MSRename ----
EXTENDS MSRename

====
