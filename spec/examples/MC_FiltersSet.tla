---- MODULE MC_FiltersSet ----
EXTENDS FiltersSet
MCInitFs == <<<<"N1", "D1">>>>

====
