------------------------------ MODULE MSClient ------------------------------
(***************************************************************************)
(* What a client operation must report for an abstract reply (C09, C17),   *)
(* on top of the reader of MSReader -- and, as separately named            *)
(* deviations, what sievelib.managesieve is known to report instead.       *)
(* For every reply the harness gets the set of admissible outcomes:        *)
(* the reference outcome (devs = {}) and one outcome per enabled deviation *)
(* whose guard holds for this reply.                                       *)
(***************************************************************************)
EXTENDS MSReader

Kind(r) == CASE r.st = "OK" -> "ok" [] r.st = "NO" -> "no" [] OTHER -> "bye"
HasLit(r) == r.text.e = "l" \/ \E i \in 1..Len(r.cargs) : r.cargs[i].e = "l"
Has(b, x) == \E i \in 1..Len(b) : b[i] = x

RECURSIVE StripL(_)
StripL(b) == IF b # <<>> /\ Head(b) = DQ THEN StripL(Tail(b)) ELSE b
RECURSIVE StripR(_)
StripR(b) == IF b # <<>> /\ b[Len(b)] = DQ THEN StripR(SubSeq(b, 1, Len(b) - 1)) ELSE b
StripDQ(b) == StripR(StripL(b))

\* ------------------------------------------------------------- status part
\* [devs, kind, code, msg, leftover]; kind: ok | no | bye | error (Error raised)
Msg(r) == IF r.text.e = "none" THEN <<>> ELSE r.text.v
RefStatus(r) == [devs |-> {}, kind |-> Kind(r), code |-> r.code, msg |-> Msg(r), leftover |-> FALSE]

\* the error parser reads  [ "(" code *(SP quoted) ")" ] [ SP (quoted / literal) ]  but a response-code argument
\* sent as a *literal* ends the line inside the parentheses: that is still refused (Dev_BadErrorMessage)
BadErr(r) == r.st = "NO" /\ \E i \in 1..Len(r.cargs) : r.cargs[i].e = "l"

DevStatus(r) ==
  (IF "Dev_BadErrorMessage" \in EnabledDevs /\ BadErr(r)
   THEN {[devs |-> {"Dev_BadErrorMessage"}, kind |-> "error", code |-> <<>>, msg |-> <<>>, leftover |-> HasLit(r)]}
   ELSE {})
  \cup
  (IF "Dev_ErrmsgRaw" \in EnabledDevs /\ r.st = "NO" /\ ~BadErr(r) /\ r.text.e = "q"
      /\ StripDQ(Esc(r.text.v)) # r.text.v
   THEN {[devs |-> {"Dev_ErrmsgRaw"}, kind |-> "no", code |-> r.code, msg |-> StripDQ(Esc(r.text.v)), leftover |-> FALSE]}
   ELSE {})
  \cup
  (IF "Dev_StatusLiteralLeft" \in EnabledDevs /\ r.st = "OK" /\ \E i \in 1..Len(r.cargs) : r.cargs[i].e = "l"
   THEN {[devs |-> {"Dev_StatusLiteralLeft"}, kind |-> "ok", code |-> r.code, msg |-> Msg(r), leftover |-> TRUE]}
   ELSE {})

StatusOutcomes(r) == {RefStatus(r)} \cup DevStatus(r)

\* -------------------------------------------------------------- LISTSCRIPTS
IsActive(line) == Len(line) >= 2 /\ line[2].e = "a"
RefList(r) ==
  LET A == {i \in 1..Len(r.lines) : IsActive(r.lines[i])}
  IN [devs |-> {},
      active |-> IF A = {} THEN <<>> ELSE <<r.lines[Max(A)][1].v>>,      \* <<>> = no active script
      names |-> [j \in 1..Cardinality({i \in 1..Len(r.lines) : i \notin A}) |->
                   r.lines[CHOOSE i \in 1..Len(r.lines) :
                             i \notin A /\ Cardinality({x \in 1..i : x \notin A}) = j][1].v]]

MarkerPrefix(b) ==   \* b starts with `{' digits [`+'] `}'
  \E k \in 3..Len(b) : Marker(SubSeq(b, 1, k)) # None

FirstDQ(b) == LET S == {i \in 1..Len(b) : b[i] = DQ} IN IF S = {} THEN 0 ELSE Min(S)

\* what the implementation makes of one listing line under the enabled deviations: [drop, name, active, devs]
\* (each deviation is the behaviour of one historical defect; disabled = the reference reading of that aspect)
ImplLine(line) ==
  LET it == line[1]
      act == IsActive(line)
      On(d) == d \in EnabledDevs
      Plain == [drop |-> FALSE, name |-> it.v, active |-> act, devs |-> {}]
  IN IF it.e = "l" THEN
        IF On("Dev_ListNameLooksLikeLiteral") /\ MarkerPrefix(it.v)
        THEN [drop |-> TRUE, name |-> <<>>, active |-> FALSE, devs |-> {"Dev_ListNameLooksLikeLiteral"}]
        ELSE IF On("Dev_ListLiteralActive") /\ act
        THEN [drop |-> FALSE, name |-> it.v \o <<SP, 65, 67, 84, 73, 86, 69>>, active |-> FALSE,
              devs |-> {"Dev_ListLiteralActive"}]
        ELSE Plain
     ELSE IF On("Dev_ListQuotedEscapes") THEN
          LET raw == Esc(it.v)
              q == FirstDQ(raw)
          IN IF q > 1 THEN   \* an escaped quote inside: the name stops at it, ACTIVE is not seen
                [drop |-> FALSE, name |-> SubSeq(raw, 1, q - 1), active |-> FALSE, devs |-> {"Dev_ListQuotedEscapes"}]
             ELSE [drop |-> FALSE, name |-> raw, active |-> act /\ raw # <<>>,
                   devs |-> IF raw # it.v THEN {"Dev_ListQuotedEscapes"} ELSE {}]
     ELSE Plain

ImplList(r) ==
  LET L == [i \in 1..Len(r.lines) |-> ImplLine(r.lines[i])]
      A == {i \in 1..Len(L) : L[i].active}
      K == {i \in 1..Len(L) : ~L[i].active /\ ~L[i].drop}
  IN [devs |-> UNION {L[i].devs : i \in 1..Len(L)},
      active |-> IF A = {} THEN <<>> ELSE <<L[Max(A)].name>>,
      names |-> [j \in 1..Cardinality(K) |->
                   L[CHOOSE i \in K : Cardinality({x \in K : x <= i}) = j].name]]

ListOutcomes(r) ==
  {RefList(r)} \cup
  (LET d == ImplList(r) IN
   IF d.devs # {} /\ d.devs \subseteq EnabledDevs /\ (d.active # RefList(r).active \/ d.names # RefList(r).names)
   THEN {d} ELSE {})

\* ---------------------------------------------------------------- GETSCRIPT
Body(r) == r.lines[1][1].v
FirstBreak(b) == LET S == {i \in 1..Len(b) : b[i] \in {CR, LF}} IN IF S = {} THEN 0 ELSE Min(S)
AfterFirstLine(b) ==
  LET i == FirstBreak(b) IN
  IF i = 0 THEN <<>>
  ELSE IF b[i] = CR /\ i < Len(b) /\ b[i + 1] = LF THEN SubSeq(b, i + 2, Len(b))
  ELSE SubSeq(b, i + 1, Len(b))

GetOutcomes(r) ==
  {[devs |-> {}, body |-> Body(r)]} \cup
  (IF "Dev_GetFirstLineLooksLikeLiteral" \in EnabledDevs /\ MarkerPrefix(Body(r))
   THEN {[devs |-> {"Dev_GetFirstLineLooksLikeLiteral"}, body |-> AfterFirstLine(Body(r))]} ELSE {})

\* -------------------------------------------------------------- emission
EmitC == (sent = 0) =>
  PrintT(ToJson(<<rid, Enc(R),
                  SetToSeq({<<SetToSeq(o.devs), o.kind, o.code, o.msg, o.leftover>> : o \in StatusOutcomes(R)}),
                  IF \A i \in 1..Len(R.lines) : R.lines[i][1].e \in {"q", "l"} /\ Len(R.lines[i]) <= 2
                  THEN SetToSeq({<<SetToSeq(o.devs), o.active, o.names>> : o \in ListOutcomes(R)}) ELSE <<>>,
                  IF Len(R.lines) = 1 /\ Len(R.lines[1]) = 1 /\ R.lines[1][1].e = "l"
                  THEN SetToSeq({<<SetToSeq(o.devs), o.body>> : o \in GetOutcomes(R)}) ELSE <<>> >>))
=============================================================================
