------------------------------ MODULE MSSession ------------------------------
(***************************************************************************)
(* Connection life-cycle of the ManageSieve client: connect (open, read    *)
(* greeting, optional STARTTLS + handshake + re-read capabilities,         *)
(* AUTHENTICATE with a chosen SASL mechanism), script operations, logout,  *)
(* over several connections of one client object, against a server that    *)
(* may answer each step with OK / NO / BYE / silence (and, for STARTTLS,    *)
(* inject plaintext after its OK).                                         *)
(*                                                                         *)
(* The module has two uses.                                                *)
(*  1. Reference client + environment: one action per step of the code;    *)
(*     TLC explores every call history up to MaxCalls with every server    *)
(*     reaction, checks the C10/C16 invariants on the design and prints    *)
(*     each history as a script (calls + server reactions + the writes the *)
(*     reference client makes) for replay into the real client.            *)
(*  2. The same invariants, as operators over an *observed* event trace,   *)
(*     are evaluated by MSSessionTrace on what the real client did.        *)
(***************************************************************************)
EXTENDS MSCommon, Json

CONSTANTS MaxCalls,
          CapsPairs,      \* sequence of [pre, post]: capability views before / after TLS
          Prefs,          \* preferred-mechanism arguments ("" = none given)
          TLSArgs,        \* subset of BOOLEAN: values of the starttls argument
          Reactions,      \* server reactions to a command: subset of {"OK","NO","BYE","silence","garbage","reset"}
                          \* (reset: the connection was reset by the peer, already the client's *write* fails; the
                          \*  environment would accept a new connection, which a correct client does not open on its own)
                          \* (garbage: octets that are no reply at all; a client can only time out on them)
          OpVerbs,        \* script operations exercised
          EnabledDevs

\* ------------------------------------------------------------------ state
VARIABLES conn,       \* id of the current connection (0 = never connected)
          chan,       \* "none" | "plain" | "tls" | "dead"
          cliAuth,    \* the client's own flag
          srvAuth,    \* set of connection ids on which AUTHENTICATE ended with OK
          caps,       \* the client's current view [sasl, tls]
          phase,      \* "idle" or the step of a connect in progress
          cur,        \* arguments of the connect in progress [tls, pref, pair]
          hist,       \* the script so far (calls, server reactions, writes, returns)
          ncalls,
          wire        \* every write: [conn, chan, verb, mech, authed, tlsok, want, announced, pref]
vars == <<conn, chan, cliAuth, srvAuth, caps, phase, cur, hist, ncalls, wire>>

NoCaps == [sasl |-> Absent, tls |-> FALSE]

Init == /\ conn = 0 /\ chan = "none" /\ cliAuth = FALSE /\ srvAuth = {} /\ caps = NoCaps
        /\ phase = "idle" /\ cur = [tls |-> FALSE, pref |-> "", pair |-> 1]
        /\ hist = <<>> /\ ncalls = 0 /\ wire = <<>>

Ev(h, e) == Append(h, e)
Write(verb, mech) == [conn |-> conn, chan |-> chan, verb |-> verb, mech |-> mech,
                      authed |-> conn \in srvAuth, tlsok |-> chan = "tls", want |-> cur.tls,
                      announced |-> caps.sasl, pref |-> cur.pref]

Fail(why) == /\ phase' = "idle" /\ hist' = Ev(hist, <<"ret", "fail", why>>)

\* ---- connect, step by step (the code: connect / __get_capabilities / __starttls / __authenticate)
CallConnect(t, p, k) ==
  /\ phase = "idle" /\ ncalls < MaxCalls
  /\ ncalls' = ncalls + 1
  /\ conn' = conn + 1 /\ chan' = "plain"
  /\ cliAuth' = FALSE                         \* a new connection starts unauthenticated
  /\ caps' = NoCaps
  /\ cur' = [tls |-> t, pref |-> p, pair |-> k]
  /\ phase' = "greeting"
  /\ hist' = Ev(hist, <<"call", "connect", t, p, k>>)
  /\ UNCHANGED <<srvAuth, wire>>

Greeting(r) ==
  /\ phase = "greeting"
  /\ hist' = Ev(hist, <<"srv", "greeting", r>>) \o (IF r = "OK" THEN <<>> ELSE << <<"ret", "fail", "greeting">> >>)
  /\ IF r = "OK"
     THEN /\ caps' = CapsPairs[cur.pair].pre
          /\ phase' = IF cur.tls THEN "starttls" ELSE "auth"
          /\ UNCHANGED chan
     ELSE /\ phase' = "idle" /\ chan' = "dead" /\ UNCHANGED caps
  /\ UNCHANGED <<conn, cliAuth, srvAuth, cur, ncalls, wire>>

StartTLS(r) ==      \* r: reaction to STARTTLS; "OK+inject" = OK followed by plaintext junk capabilities
  /\ phase = "starttls"
  /\ IF ~caps.tls
     THEN /\ Fail("starttls unavailable") /\ UNCHANGED <<wire, chan, caps>>
     ELSE /\ wire' = Append(wire, Write("STARTTLS", ""))
          /\ hist' = Ev(Ev(hist, <<"write", chan, "STARTTLS", "">>), <<"srv", "starttls", r>>)
                     \o (IF r \in {"OK", "OK+inject"} THEN <<>> ELSE << <<"ret", "fail", "starttls">> >>)
          /\ IF r \in {"OK", "OK+inject"} THEN phase' = "handshake" /\ UNCHANGED chan
             ELSE phase' = "idle" /\ chan' = (IF r = "NO" THEN chan ELSE "dead")
          /\ UNCHANGED caps
  /\ UNCHANGED <<conn, cliAuth, srvAuth, cur, ncalls>>

Handshake(ok) ==
  /\ phase = "handshake"
  /\ hist' = Ev(hist, <<"srv", "handshake", IF ok THEN "OK" ELSE "fail">>)
             \o (IF ok THEN <<>> ELSE << <<"ret", "fail", "handshake">> >>)
  /\ IF ok THEN chan' = "tls" /\ caps' = NoCaps /\ phase' = "postcaps"
     ELSE chan' = "dead" /\ phase' = "idle" /\ UNCHANGED caps
  /\ UNCHANGED <<conn, cliAuth, srvAuth, cur, ncalls, wire>>

PostCaps(r) ==
  /\ phase = "postcaps"
  /\ hist' = Ev(hist, <<"srv", "postcaps", r>>) \o (IF r = "OK" THEN <<>> ELSE << <<"ret", "fail", "postcaps">> >>)
  /\ IF r = "OK" THEN caps' = CapsPairs[cur.pair].post /\ phase' = "auth" /\ UNCHANGED chan
     ELSE phase' = "idle" /\ chan' = "dead" /\ UNCHANGED caps
  /\ UNCHANGED <<conn, cliAuth, srvAuth, cur, ncalls, wire>>

\* Mechanisms whose exchange takes several round trips.  DIGEST-MD5 (RFC 2831 over RFC 5804 2.1):
\*   C: AUTHENTICATE "DIGEST-MD5"      S: challenge                      (Auth, reaction OK = "challenge sent")
\*   C: response                       S: rspauth challenge              (AuthRespond)
\*   C: ""                             S: OK                             (AuthFinish)
\* the server may answer NO / BYE / nothing / garbage at each of the three steps; only the OK that ends
\* the third step authenticates the connection.
MultiStep == {"DIGEST-MD5"}

Auth(r) ==
  /\ phase = "auth"
  /\ LET m == ChooseMech(caps.sasl, cur.pref) IN
     IF m = ""
     THEN /\ Fail("no mechanism") /\ UNCHANGED <<wire, cliAuth, srvAuth, chan>>
     ELSE IF m \in MultiStep /\ r = "OK"
     THEN /\ wire' = Append(wire, Write("AUTHENTICATE", m))
          /\ hist' = Ev(Ev(hist, <<"write", chan, "AUTHENTICATE", m>>), <<"srv", "auth", r>>)
          /\ phase' = "auth2"
          /\ UNCHANGED <<cliAuth, srvAuth, chan>>
     ELSE /\ wire' = Append(wire, Write("AUTHENTICATE", m))
          /\ hist' = Ev(Ev(Ev(hist, <<"write", chan, "AUTHENTICATE", m>>), <<"srv", "auth", r>>),
                        <<"ret", IF r = "OK" THEN "ok" ELSE "fail", "auth">>)
          /\ phase' = "idle"
          /\ cliAuth' = (r = "OK")
          /\ srvAuth' = IF r = "OK" THEN srvAuth \cup {conn} ELSE srvAuth
          /\ chan' = IF r \in {"OK", "NO"} THEN chan ELSE "dead"
  /\ UNCHANGED <<conn, caps, cur, ncalls>>

AuthRespond(r) ==     \* the client answers the challenge; OK = the server accepts and sends its rspauth
  /\ phase = "auth2"
  /\ wire' = Append(wire, Write("CONT", ""))
  /\ hist' = Ev(Ev(hist, <<"write", chan, "CONT", "">>), <<"srv", "auth2", r>>)
             \o (IF r = "OK" THEN <<>> ELSE << <<"ret", "fail", "auth2">> >>)
  /\ phase' = IF r = "OK" THEN "auth3" ELSE "idle"
  /\ chan' = IF r \in {"OK", "NO"} THEN chan ELSE "dead"
  /\ UNCHANGED <<conn, caps, cur, ncalls, cliAuth, srvAuth>>

AuthFinish(r) ==      \* the client acknowledges with an empty response; the server ends the exchange
  /\ phase = "auth3"
  /\ wire' = Append(wire, Write("CONT", ""))
  /\ hist' = Ev(Ev(Ev(hist, <<"write", chan, "CONT", "">>), <<"srv", "auth3", r>>),
                <<"ret", IF r = "OK" THEN "ok" ELSE "fail", "auth3">>)
  /\ phase' = "idle"
  /\ cliAuth' = (r = "OK")
  /\ srvAuth' = IF r = "OK" THEN srvAuth \cup {conn} ELSE srvAuth
  /\ chan' = IF r \in {"OK", "NO"} THEN chan ELSE "dead"
  /\ UNCHANGED <<conn, caps, cur, ncalls>>

\* ---- script operations and logout
\* LOGOUT and CAPABILITY are not script commands: the client sends them on any open connection, authenticated or
\* not (calling them on a client that never connected is outside the model: there is no socket).  After LOGOUT
\* the server closes the connection (RFC 5804 2.3); the client keeps its flag -- a later operation is written to
\* the closed connection and fails there.
NoAuthVerbs == {"LOGOUT", "CAPABILITY"}
CallOp(v, r) ==
  /\ phase = "idle" /\ ncalls < MaxCalls
  /\ v \in NoAuthVerbs => chan # "none"
  /\ ncalls' = ncalls + 1
  /\ IF cliAuth \/ v \in NoAuthVerbs
     THEN /\ wire' = Append(wire, Write(v, ""))
          /\ hist' = hist \o << <<"call", "op", v>>, <<"write", chan, v, "">>, <<"srv", "op", r>>,
                                <<"ret", IF r = "OK" THEN "ok" ELSE "fail", "op">> >>
          /\ chan' = IF r = "NO" \/ (r = "OK" /\ v # "LOGOUT") THEN chan ELSE "dead"
     ELSE /\ hist' = hist \o << <<"call", "op", v>>, <<"ret", "refused", "op">> >>
          /\ UNCHANGED <<wire, chan>>
  /\ UNCHANGED <<conn, cliAuth, srvAuth, caps, phase, cur>>

Next ==
  \/ \E t \in TLSArgs, p \in Prefs, k \in 1..Len(CapsPairs) : CallConnect(t, p, k)
  \/ \E r \in Reactions : Greeting(r)
  \/ \E r \in Reactions \cup {"OK+inject"} : StartTLS(r)
  \/ \E ok \in BOOLEAN : Handshake(ok)
  \/ \E r \in Reactions : PostCaps(r)
  \/ \E r \in Reactions : Auth(r)
  \/ \E r \in Reactions : AuthRespond(r)
  \/ \E r \in Reactions : AuthFinish(r)
  \/ \E v \in OpVerbs, r \in Reactions : CallOp(v, r)

Spec == Init /\ [][Next]_vars

\* ------------------------------------------------------------ properties
\* over a sequence of write records (the design's `wire', or an observed one)
NoScriptCmdBeforeAuthOn(w) == \A i \in 1..Len(w) : w[i].verb \in ScriptVerbs => w[i].authed
NoCredsBeforeTLSOn(w) == \A i \in 1..Len(w) : (w[i].verb = "AUTHENTICATE" /\ w[i].want) => w[i].tlsok
MechRightOn(w) == \A i \in 1..Len(w) :
                     w[i].verb = "AUTHENTICATE" => (w[i].mech # "" /\ w[i].mech = ChooseMech(w[i].announced, w[i].pref))

NoScriptCmdBeforeAuth == NoScriptCmdBeforeAuthOn(wire)
NoCredsBeforeTLS == NoCredsBeforeTLSOn(wire)
MechRight == MechRightOn(wire)                \* includes MechFromPostTLSCaps: `announced' is the current view
ClientFlagSound == cliAuth => conn \in srvAuth

\* -------------------------------------------------------------- emission
Quiescent == phase = "idle" /\ ncalls = MaxCalls
Emit == Quiescent => PrintT(ToJson(hist))
=============================================================================
