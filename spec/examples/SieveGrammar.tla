---------------------------- MODULE SieveGrammar ----------------------------
(***************************************************************************)
(* Reference recogniser for the supported Sieve language: a deterministic  *)
(* push-down machine driven by one token per step, generic over a command  *)
(* table T (SieveTable!BaseCmds, possibly extended by custom commands).    *)
(* It builds the *syntactic* tree of RFC 5228 section 8.2 as it goes,      *)
(* tracks the extensions required so far, and ends in a three-valued       *)
(* verdict: accept / reject(why, bad token) / dontcare (irr # {}).         *)
(*                                                                         *)
(* Tokens are records [k, v]:                                              *)
(*   k \in {"id","tag","str","ml","num","lb","rb","lp","rp","lc","rc",    *)
(*          "semi","comma","eof"};  v is the lower-cased identifier / tag, *)
(*   the string content, or the number text ("" for punctuation).          *)
(*                                                                         *)
(* Deviations of the implementation from this reference that a listed      *)
(* property forbids are written as extra, named branches (Dev_...) that    *)
(* are only enabled when their name is in the constant set EnabledDevs;    *)
(* a state reached through one of them remembers it in `devs'.             *)
(***************************************************************************)
EXTENDS SieveTable

CONSTANT EnabledDevs       \* set of deviation names that may be taken

TK(k, v) == [k |-> k, v |-> v]
EOFTok == TK("eof", "")

IsTerm(t) == t.k \in {"comma", "rp", "lc", "semi", "rc", "rb", "eof"}
ValType(t) == CASE t.k \in {"str", "ml"} -> "S" [] t.k = "num" -> "N" [] t.k = "lb" -> "L" [] OTHER -> "?"

\* ---------------------------------------------------------------- frames
\* One uniform record shape for every frame kind (f):
\*   "blk": node = owning control (0 = top level), prev = name of the previous
\*          sibling ("" if none), flag = a non-require sibling has been seen
\*   "cmd": node, ph \in {"args","param"}, slot (awaiting its parameter),
\*          npos, ntest, filled (slots filled), t1 (type of 1st positional)
\*   "tl" : node = the anyof/allof node, want \in {"item","sep"}, npos = #tests
\*   "sl" : node = owner node, want, items, own \in {"pos","param","drop"}
Frame(f, node) == [f |-> f, node |-> node, ph |-> "args", slot |-> 0, npos |-> 0,
                   ntest |-> 0, filled |-> {}, t1 |-> "?", want |-> "item",
                   items |-> <<>>, own |-> "pos", prev |-> "", flag |-> FALSE]

\* ---------------------------------------------------------------- nodes
\* args: sequence of <<tag, val>>; tag = "" for a positional; val = <<>> for a
\* parameter-less tag, else <<"s"|"m"|"n", text>> or <<"l", <<item, ...>>>>
\* where an item is <<"s"|"m", text>>.
Node(name, par, role) == [name |-> name, par |-> par, role |-> role, args |-> <<>>, blk |-> FALSE]

InitState == [stk |-> <<Frame("blk", 0)>>, nodes |-> <<>>, loaded |-> {},
              v |-> "run", why |-> "", warg |-> "", bad |-> 0, n |-> 0,
              irr |-> {}, irrat |-> 0, devs |-> {}]

Top(s) == s.stk[Len(s.stk)]
Pop(s) == [s EXCEPT !.stk = SubSeq(@, 1, Len(@) - 1)]
Push(s, fr) == [s EXCEPT !.stk = Append(@, fr)]
SetTop(s, fr) == [s EXCEPT !.stk[Len(s.stk)] = fr]
Rej(s, cls, arg) == [s EXCEPT !.v = "rej", !.why = cls, !.warg = arg, !.bad = s.n + 1]
\* irrat: index of the token at which the first irregularity was noticed
Irr(s, x) == [s EXCEPT !.irr = @ \cup {x}, !.irrat = IF @ = 0 THEN s.n + 1 ELSE @]
WithDev(s, d) == [s EXCEPT !.devs = @ \cup {d}]

AddNode(s, name, par, role) == [s EXCEPT !.nodes = Append(@, Node(name, par, role))]
AddArg(s, node, tag, val) == [s EXCEPT !.nodes[node].args = Append(@, <<tag, val>>)]
SetLastVal(s, node, val) ==
  [s EXCEPT !.nodes[node].args[Len(s.nodes[node].args)] = <<@[1], val>>]

TokVal(t) == CASE t.k = "str" -> <<"s", t.v>> [] t.k = "ml" -> <<"m", t.v>> [] OTHER -> <<"n", t.v>>

StrsOf(val) ==  \* the set of string contents of a string / list value
  IF val[1] = "l" THEN {val[2][i][2] : i \in 1..Len(val[2])} ELSE {val[2]}

\* the positional values of a node, in order
PosVals(nd) == LET I == {i \in 1..Len(nd.args) : nd.args[i][1] = ""}
               IN [j \in 1..Cardinality(I) |->
                     nd.args[CHOOSE i \in I : Cardinality({x \in I : x <= i}) = j][2]]

\* ------------------------------------------------- starting a command/test
\* checks shared by command and test position, in the order the language
\* processor must apply them: known?, extension loaded?, right kind?
StartChecks(T, s, name, wantTest) ==
  IF name \notin DOMAIN T THEN Rej(s, "unknownCommand", name)
  ELSE IF T[name].ext # "" /\ T[name].ext \notin s.loaded THEN Rej(s, "extNotLoaded", T[name].ext)
  ELSE IF wantTest /\ T[name].kind # "test" THEN Rej(s, "nonTestAsTest", name)
  ELSE IF ~wantTest /\ T[name].kind = "test" THEN Rej(s, "testAsCommand", name)
  ELSE s

\* ------------------------------------------------------- value delivered
\* a complete positional value (string, number or closed list) reaches the
\* command frame on top of the stack
TakePositional(T, s, top, ty, val) ==
  LET E == T[s.nodes[top.node].name]
      i == top.npos + 1
      twoOpen == NOptPos(E) = 1   \* optional leading positional
  IN
  IF top.ntest > 0 THEN Rej(s, "valueAfterTest", "")
  ELSE IF i > Len(E.pos) THEN Rej(s, IF ty = "L" THEN "surplusList" ELSE "surplusArg", "")
  ELSE IF ReqSlots(E) \ top.filled # {} THEN Rej(s, "illTyped", "")
  ELSE IF ~twoOpen /\ ty \notin E.pos[i].types THEN Rej(s, "illTyped", "")
  ELSE IF twoOpen /\ i = 1 /\ ty \notin (E.pos[1].types \cup E.pos[2].types) THEN Rej(s, "illTyped", "")
  ELSE IF twoOpen /\ i = 2 /\ (top.t1 \notin E.pos[1].types \/ ty \notin E.pos[2].types) THEN Rej(s, "illTyped", "")
  ELSE AddArg(SetTop(s, [top EXCEPT !.npos = i, !.t1 = IF i = 1 THEN ty ELSE @]),
              top.node, "", val)

\* ------------------------------------------------------------ dispatch
RECURSIVE Disp(_, _, _)

\* a test frame on top is finished by terminator t: pop it and give t to the parent
EndTest(T, s, top, t) ==
  LET E == T[s.nodes[top.node].name]
      s1 == IF top.npos < NReqPos(E) \/ ReqSlots(E) \ top.filled # {} \/ top.ph = "param"
            THEN Irr(s, "omittedArgs") ELSE s
  IN IF E.tests # "none" /\ top.ntest = 0 THEN Rej(s, "missingTest", "")
     ELSE Disp(T, Pop(s1), t)

\* a command (not a test) frame receives terminator t
EndCommand(T, s, top, t) ==
  LET name == s.nodes[top.node].name
      E == T[name]
      s1 == IF top.npos < NReqPos(E) \/ ReqSlots(E) \ top.filled # {} \/ top.ph = "param"
            THEN Irr(s, "omittedArgs") ELSE s
      parent == s.stk[Len(s.stk) - 1]
  IN
  CASE t.k = "semi" ->
         IF E.block THEN Rej(s, "missingBlock", "")
         ELSE LET s2 == IF name = "require"
                        THEN LET vals == PosVals(s.nodes[top.node])
                                 exts == IF Len(vals) = 0 THEN {} ELSE StrsOf(vals[1])
                             IN [(IF exts \subseteq (KnownExts \cup {T[c].ext : c \in DOMAIN T}) THEN s1 ELSE Irr(s1, "unknownExt"))
                                   EXCEPT !.loaded = @ \cup exts]
                        ELSE s1
              IN SetTop(Pop(s2), [parent EXCEPT !.prev = name,
                                               !.flag = @ \/ name # "require"])
    [] t.k = "lc" ->
         IF ~E.block THEN Rej(s, "blockAfterAction", "")
         ELSE IF E.tests # "none" /\ top.ntest = 0 THEN Rej(s, "missingTest", "")
         ELSE LET s2 == [s1 EXCEPT !.nodes[top.node].blk = TRUE]
              IN SetTop(s2, Frame("blk", top.node))
    [] t.k = "rc" -> Rej(s, IF E.block THEN "missingBlock" ELSE "missingSemicolon", "")
    [] t.k = "eof" -> Rej(s, "unterminated", "")
    [] OTHER -> Rej(s, "bracket", "")

CmdStep(T, s, top, t) ==
  LET nd == s.nodes[top.node]
      E == T[nd.name]
  IN
  IF top.ph = "param" THEN
    LET sl == E.slots[top.slot] IN
    IF t.k \in {"str", "ml"} /\ sl.ptype \in {"S", "L"} THEN
       IF sl.pvals # {} /\ t.v \notin sl.pvals THEN Rej(s, "badParam", "")
       ELSE SetLastVal(SetTop(s, [top EXCEPT !.ph = "args"]), top.node, TokVal(t))
    ELSE IF t.k = "num" /\ sl.ptype = "N" THEN
       SetLastVal(SetTop(s, [top EXCEPT !.ph = "args"]), top.node, TokVal(t))
    ELSE IF t.k = "lb" /\ sl.ptype = "L" THEN
       Push(s, [Frame("sl", top.node) EXCEPT !.own = "param"])
    ELSE IF IsTerm(t) THEN
       IF nd.role = "t" THEN EndTest(T, s, top, t) ELSE EndCommand(T, s, top, t)
    ELSE Rej(s, "badParam", "")
  ELSE
  CASE t.k = "tag" ->
         LET k == SlotOf(E, t.v) IN
         IF k = 0 THEN Rej(s, "tagNotTaken", t.v)
         ELSE IF top.npos > 0 \/ top.ntest > 0 THEN Rej(s, "tagMisplaced", t.v)
         ELSE LET sl == E.slots[k]
                  te == IF t.v \in DOMAIN sl.tagext THEN sl.tagext[t.v] ELSE ""
              IN IF sl.ext # "" /\ sl.ext \notin s.loaded THEN Rej(s, "extNotLoaded", sl.ext)
                 ELSE IF te # "" /\ te \notin s.loaded THEN Rej(s, "extNotLoaded", te)
                 ELSE LET s1 == IF k \in top.filled THEN Irr(s, "repeatedTag") ELSE s
                          wantsP == sl.ptype # "none" /\ t.v \in sl.pfor
                      IN AddArg(SetTop(s1, [top EXCEPT !.filled = @ \cup {k},
                                                       !.ph = IF wantsP THEN "param" ELSE "args",
                                                       !.slot = k]),
                                top.node, t.v, <<>>)
    [] t.k \in {"str", "ml", "num"} -> TakePositional(T, s, top, ValType(t), TokVal(t))
    [] t.k = "lb" ->
         \* type check now (position of the bracket is the offending place), value at "]"
         LET probe == TakePositional(T, s, top, "L", <<"l", <<>>>>) IN
         IF probe.v = "rej" THEN probe
         ELSE Push(s, [Frame("sl", top.node) EXCEPT !.own = "pos"])
    [] t.k = "id" ->
         IF E.tests = "one" /\ top.ntest = 0 /\ top.npos = 0 THEN
            LET c == StartChecks(T, s, t.v, TRUE) IN
            IF c.v = "rej" THEN c
            ELSE LET s1 == AddNode(SetTop(s, [top EXCEPT !.ntest = 1]), t.v, top.node, "t")
                 IN Push(s1, Frame("cmd", Len(s1.nodes)))
         ELSE IF nd.role = "t" THEN Rej(s, "surplusTest", "")
         ELSE IF E.block THEN Rej(s, IF E.tests = "list" /\ top.ntest = 0 THEN "missingTest" ELSE "missingBlock", "")
         ELSE Rej(s, "missingSemicolon", "")
    [] t.k = "lp" ->
         IF E.tests = "list" /\ top.ntest = 0 /\ top.npos = 0
         THEN Push(SetTop(s, [top EXCEPT !.ntest = 1]), Frame("tl", top.node))
         ELSE Rej(s, "bracket", "")
    [] OTHER ->   \* terminators
         IF nd.role = "t" THEN EndTest(T, s, top, t) ELSE EndCommand(T, s, top, t)

TlStep(T, s, top, t) ==
  IF top.want = "item" THEN
    IF t.k = "id" THEN
       LET c == StartChecks(T, s, t.v, TRUE) IN
       IF c.v = "rej" THEN c
       ELSE LET s1 == AddNode(SetTop(s, [top EXCEPT !.want = "sep", !.npos = @ + 1]), t.v, top.node, "t")
            IN Push(s1, Frame("cmd", Len(s1.nodes)))
    ELSE IF t.k = "eof" THEN Rej(s, "unterminated", "")
    ELSE IF t.k = "rp" THEN Rej(s, IF top.npos = 0 THEN "emptyList" ELSE "malformedList", "")
    ELSE Rej(s, "malformedList", "")
  ELSE
    CASE t.k = "comma" -> SetTop(s, [top EXCEPT !.want = "item"])
      [] t.k = "rp" -> Pop(s)
      [] t.k = "eof" -> Rej(s, "unterminated", "")
      [] t.k \in {"rc", "rb"} -> Rej(s, "bracket", "")
      [] OTHER -> Rej(s, "malformedList", "")

\* the closed list reaches its owner
CloseList(T, s, top) ==
  LET val == <<"l", top.items>>
      s1 == Pop(s)
      own == Top(s1)
  IN CASE top.own = "param" -> SetLastVal(SetTop(s1, [own EXCEPT !.ph = "args"]), own.node, val)
       [] top.own = "pos" -> TakePositional(T, s1, own, "L", val)
       [] OTHER -> s1       \* "drop": a deviation swallowed the list

SlStep(T, s, top, t) ==
  IF top.want = "item" THEN
    IF t.k = "str" THEN SetTop(s, [top EXCEPT !.want = "sep", !.items = Append(@, <<"s", t.v>>)])
    ELSE IF t.k = "ml" THEN SetTop(Irr(s, "mlInList"), [top EXCEPT !.want = "sep", !.items = Append(@, <<"m", t.v>>)])
    ELSE IF t.k = "eof" THEN Rej(s, "unterminated", "")
    ELSE IF t.k = "rb" THEN Rej(s, IF Len(top.items) = 0 THEN "emptyList" ELSE "malformedList", "")
    ELSE Rej(s, "malformedList", "")
  ELSE
    CASE t.k = "comma" -> SetTop(s, [top EXCEPT !.want = "item"])
      [] t.k = "rb" -> CloseList(T, s, top)
      [] t.k = "eof" -> Rej(s, "unterminated", "")
      [] t.k \in {"rc", "rp"} -> Rej(s, "bracket", "")
      [] OTHER -> Rej(s, "malformedList", "")

BlkStep(T, s, top, t) ==
  CASE t.k = "id" ->
         LET c == StartChecks(T, s, t.v, FALSE) IN
         IF c.v = "rej" THEN c
         ELSE IF T[t.v].follow # {} /\ top.prev \notin T[t.v].follow THEN Rej(s, "mustFollow", t.v)
         ELSE LET s0 == IF t.v = "require" /\ (top.flag \/ top.node # 0) THEN Irr(s, "lateRequire") ELSE s
                  s1 == AddNode(s0, t.v, top.node, "c")
              IN Push(s1, Frame("cmd", Len(s1.nodes)))
    [] t.k = "rc" ->
         IF top.node = 0 THEN Rej(s, "bracket", "")
         ELSE LET s1 == Pop(s)
                  par == Top(s1)
              IN SetTop(s1, [par EXCEPT !.prev = s.nodes[top.node].name, !.flag = TRUE])
    [] t.k = "eof" ->
         IF top.node = 0 THEN [s EXCEPT !.v = "acc"] ELSE Rej(s, "unterminated", "")
    [] t.k \in {"rp", "rb"} -> Rej(s, "bracket", "")
    [] OTHER -> Rej(s, "commandExpected", "")

Disp(T, s, t) ==
  LET top == Top(s) IN
  CASE top.f = "blk" -> BlkStep(T, s, top, t)
    [] top.f = "cmd" -> CmdStep(T, s, top, t)
    [] top.f = "tl"  -> TlStep(T, s, top, t)
    [] OTHER         -> SlStep(T, s, top, t)

\* one reference step: consumes token t in state s (s.v = "run").  A "junk" token
\* stands for a byte sequence that is no token at all (lexical error).
RefStep(T, s, t) == [(IF t.k = "junk" THEN Rej(s, "lexical", "") ELSE Disp(T, s, t)) EXCEPT !.n = s.n + 1]

\* ---------------------------------------------------------- deviations
\* DevSucc(T, s, t): the implementation's known departures from the reference
\* at (s, t), each enabled only when its name is in EnabledDevs.  A state
\* reached through one remembers it in `devs'.  Pseudo-verdicts of deviation
\* paths: "rejlate" = rejected, but only noticed at some later token (the
\* reported position is at or after token `bad' and may depend on what follows).

\* (reject class, kind of the offending token) pairs the implementation notices late
LatePairs == { <<"bracket", "lp">>, <<"bracket", "comma">>, <<"mustFollow", "id">>,
               <<"surplusList", "lb">>, <<"badParam", "lb">>, <<"badParam", "lp">>,
               <<"illTyped", "lb">>, <<"missingBlock", "semi">>,
               <<"valueAfterTest", "lb">>, <<"malformedList", "semi">> }

\* a command whose table holds only optional tags (keep) is "complete" from the
\* start for the implementation: its tags are refused
OnlyOptionalTags(E) == Len(E.slots) > 0 /\ ReqSlots(E) = {} /\ Len(E.pos) = 0 /\ E.tests = "none"

DevSucc(T, s, t) ==
  LET r == RefStep(T, s, t) IN
  (IF "Dev_LateDetection" \in EnabledDevs /\ r.v = "rej" /\ <<r.why, t.k>> \in LatePairs
   THEN {[WithDev(r, "Dev_LateDetection") EXCEPT !.v = "rejlate"]} ELSE {})
  \cup
  (IF "Dev_OptionalTagsRefused" \in EnabledDevs /\ Top(s).f = "cmd" /\ t.k = "tag"
      /\ Top(s).ph = "args"
      /\ OnlyOptionalTags(T[s.nodes[Top(s).node].name])
      /\ SlotOf(T[s.nodes[Top(s).node].name], t.v) # 0
   THEN {[WithDev(Rej(s, "tagNotTaken", t.v), "Dev_OptionalTagsRefused") EXCEPT !.n = s.n + 1]}
   ELSE {})

Steps(T, s, t) == {RefStep(T, s, t)} \cup DevSucc(T, s, t)

RECURSIVE RunSeq(_, _, _)
RunSeq(T, s, ts) == IF ts = <<>> \/ s.v # "run" THEN s
                    ELSE RunSeq(T, RefStep(T, s, Head(ts)), Tail(ts))

\* ------------------------------------------------------- serialisation (C04)
\* Ser: the canonical text of a tree as a token sequence: identifier, tags in table
\* order (each with its parameter), positionals in order, test or test list, then
\* `;' or the block.  RoundTrip: re-reading Ser(tree) gives the same tree and the
\* same serialisation (checked by TLC on every accepted behaviour).
RECURSIVE ItemToks(_)
ItemToks(items) == IF items = <<>> THEN <<>>
                   ELSE <<TK(IF items[1][1] = "m" THEN "ml" ELSE "str", items[1][2])>>
                        \o (IF Len(items) > 1 THEN <<TK("comma", "")>> ELSE <<>>) \o ItemToks(Tail(items))
ValToks(val) == CASE val = <<>> -> <<>>
                  [] val[1] = "s" -> <<TK("str", val[2])>>
                  [] val[1] = "m" -> <<TK("ml", val[2])>>
                  [] val[1] = "n" -> <<TK("num", val[2])>>
                  [] OTHER -> <<TK("lb", "")>> \o ItemToks(val[2]) \o <<TK("rb", "")>>

KidsOf(s, i, role) == LET S == {j \in 1..Len(s.nodes) : s.nodes[j].par = i /\ s.nodes[j].role = role}
                      IN [k \in 1..Cardinality(S) |-> CHOOSE j \in S : Cardinality({x \in S : x <= j}) = k]

RECURSIVE SerNode(_, _, _), SerSeq(_, _, _, _)
SerSeq(T, s, ids, sep) == IF ids = <<>> THEN <<>>
                          ELSE SerNode(T, s, ids[1]) \o (IF Len(ids) > 1 THEN sep ELSE <<>>) \o SerSeq(T, s, Tail(ids), sep)
SerNode(T, s, i) ==
  LET nd == s.nodes[i]
      E == T[nd.name]
      TagPart(k) == LET A == {a \in 1..Len(nd.args) : nd.args[a][1] # "" /\ nd.args[a][1] \in E.slots[k].tags}
                    IN IF A = {} THEN <<>>
                       ELSE LET a == CHOOSE x \in A : \A y \in A : y <= x      \* last occurrence wins
                            IN <<TK("tag", nd.args[a][1])>> \o ValToks(nd.args[a][2])
      RECURSIVE Tags(_)
      Tags(k) == IF k > Len(E.slots) THEN <<>> ELSE TagPart(k) \o Tags(k + 1)
      PV == PosVals(nd)
      RECURSIVE Poss(_)
      Poss(k) == IF k > Len(PV) THEN <<>> ELSE ValToks(PV[k]) \o Poss(k + 1)
      tests == KidsOf(s, i, "t")
      kids == KidsOf(s, i, "c")
  IN <<TK("id", nd.name)>> \o Tags(1) \o Poss(1)
     \o (IF E.tests = "list" /\ tests # <<>>
         THEN <<TK("lp", "")>> \o SerSeq(T, s, tests, <<TK("comma", "")>>) \o <<TK("rp", "")>>
         ELSE SerSeq(T, s, tests, <<>>))
     \o (IF nd.role = "t" THEN <<>>
         ELSE IF nd.blk THEN <<TK("lc", "")>> \o SerSeq(T, s, kids, <<>>) \o <<TK("rc", "")>>
         ELSE <<TK("semi", "")>>)

Ser(T, s) == SerSeq(T, s, KidsOf(s, 0, "c"), <<>>)

\* a tree up to the order of tags
Canon(s) == [i \in 1..Len(s.nodes) |->
               <<s.nodes[i].name, s.nodes[i].par, s.nodes[i].role, s.nodes[i].blk,
                 {s.nodes[i].args[a] : a \in {x \in 1..Len(s.nodes[i].args) : s.nodes[i].args[x][1] # ""}},
                 PosVals(s.nodes[i])>>]

RoundTripOf(T, e) ==      \* e: an accepted final state without irregularity
  LET ts == Ser(T, e)
      r == RunSeq(T, InitState, ts \o <<EOFTok>>)
  IN r.v = "acc" /\ r.irr = {} /\ Canon(r) = Canon(e) /\ Ser(T, r) = ts

\* ------------------------------------------------ design-level invariants
\* C07 at design level: every node/tag of the tree that belongs to an
\* extension is covered by `loaded' (checked in every reachable state).
ExtsUsed(T, s) ==
  UNION {
    LET nd == s.nodes[i]
        E == T[nd.name]
    IN (IF E.ext # "" THEN {E.ext} ELSE {})
       \cup UNION { LET tg == nd.args[j][1]
                        k == IF tg = "" THEN 0 ELSE SlotOf(E, tg)
                    IN IF k = 0 THEN {}
                       ELSE (IF E.slots[k].ext # "" THEN {E.slots[k].ext} ELSE {})
                            \cup (IF tg \in DOMAIN E.slots[k].tagext THEN {E.slots[k].tagext[tg]} ELSE {})
                  : j \in 1..Len(nd.args) }
    : i \in 1..Len(s.nodes) }

Gated(T, s) == s.devs = {} => ExtsUsed(T, s) \subseteq s.loaded
RejectSticks(s) == s.v = "rej" => (s.bad >= 1 /\ s.bad <= s.n /\ s.why # "")
=============================================================================
