---- MODULE MC_MSSession ----
EXTENDS MSSession
MCPairs == <<[pre |-> [sasl |-> <<"LOGIN">>, tls |-> TRUE], post |-> [sasl |-> <<"PLAIN">>, tls |-> FALSE]], [pre |-> [sasl |-> <<"PLAIN">>, tls |-> FALSE], post |-> [sasl |-> <<"PLAIN">>, tls |-> FALSE]]>>

====
