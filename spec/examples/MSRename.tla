------------------------------ MODULE MSRename ------------------------------
(***************************************************************************)
(* Reference client for the emulated RENAMESCRIPT: one action per command, *)
(* early exits as in the code, one fault (NO / BYE / silence / reply lost  *)
(* after the server acted) at any step, every initial store.  TLC checks   *)
(* the C14 predicates in every intermediate state and prints each          *)
(* behaviour as a scenario for replay into the real client.                *)
(***************************************************************************)
EXTENDS MSStore

CONSTANT FaultKinds     \* subset of {"NO", "NOSTICKY", "BYE", "silence", "lost", "stall"}
                        \* NOSTICKY = NO now and to every later command of the same verb (a quota that is
                        \*         exhausted stays exhausted): the same to the reference client, which stops
                        \*         at the first NO, but not to a client that retries or tries to undo
                        \* lost  = the server acted, its reply never arrives
                        \* stall = the server acted, its reply arrives in part, then nothing for longer than the
                        \*         client's read timeout (the rest would come later): for the client a timeout

\* -------------------------- reference client: emulated rename with faults
VARIABLES st0, st, old, new, step, fault, got, res, log, body
vars == <<st0, st, old, new, step, fault, got, res, log, body>>
\* step: "list" "get" "put" "setactive" "delete" "done"; fault = [at, kind] or [at |-> "none"]

Stores == {[scripts |-> f, active |-> a] :
             f \in UNION {[D -> Bodies] : D \in SUBSET Names},
             a \in Names \cup {None}}
WF(s) == s.active = None \/ Has(s, s.active)

Steps == {"list", "get", "put", "setactive", "delete"}
Init == /\ st0 \in {s \in Stores : WF(s)} /\ st = st0
        /\ old \in Names /\ new \in Names
        /\ fault \in {[at |-> "none", kind |-> ""]} \cup {[at |-> a, kind |-> k] : a \in Steps, k \in FaultKinds}
        /\ step = "list" /\ got = None /\ res = "pending" /\ log = <<>>
        /\ body = CHOOSE b \in Bodies : TRUE

\* one exchange: the server performs cmd unless a fault hits this step
Exchange(at, cmd) ==
  IF fault.at = at THEN
     [st |-> IF fault.kind \in {"lost", "stall"} THEN Srv(st, cmd).st ELSE st,
      status |-> IF fault.kind \in {"NO", "NOSTICKY"} THEN "NO" ELSE IF fault.kind = "BYE" THEN "BYE" ELSE "silence",
      data |-> <<>>]
  ELSE LET r == Srv(st, cmd) IN [st |-> r.st, status |-> r.reply.status, data |-> r.reply.data]

Finish(r) == step' = "done" /\ res' = r
Dead(x) == x.status \in {"BYE", "silence"}

DoList == /\ step = "list"
          /\ LET x == Exchange("list", Cmd("LISTSCRIPTS", "", "")) IN
             /\ st' = x.st /\ log' = Append(log, "LISTSCRIPTS")
             /\ IF Dead(x) THEN Finish("error") /\ UNCHANGED got
                ELSE IF x.status = "NO" THEN Finish("false") /\ UNCHANGED got
                ELSE LET names == {x.data[i][1] : i \in 1..Len(x.data)} IN
                     IF old \notin names \/ new \in names THEN Finish("false") /\ UNCHANGED got
                     ELSE /\ step' = "get" /\ UNCHANGED <<res>>
                          /\ got' = IF \E i \in 1..Len(x.data) : x.data[i][1] = old /\ x.data[i][2] THEN "active" ELSE "inactive"
          /\ UNCHANGED <<st0, old, new, fault, body>>

DoGet == /\ step = "get"
         /\ LET x == Exchange("get", Cmd("GETSCRIPT", old, "")) IN
            /\ st' = x.st /\ log' = Append(log, "GETSCRIPT")
            /\ IF Dead(x) THEN Finish("error") /\ UNCHANGED body
               ELSE IF x.status = "NO" THEN Finish("false") /\ UNCHANGED body
               ELSE body' = x.data[1] /\ step' = "put" /\ UNCHANGED res
         /\ UNCHANGED <<st0, old, new, fault, got>>

DoPut == /\ step = "put"
         /\ LET x == Exchange("put", Cmd("PUTSCRIPT", new, body)) IN
            /\ st' = x.st /\ log' = Append(log, "PUTSCRIPT")
            /\ IF Dead(x) THEN Finish("error")
               ELSE IF x.status = "NO" THEN Finish("false")
               ELSE step' = (IF got = "active" THEN "setactive" ELSE "delete") /\ UNCHANGED res
         /\ UNCHANGED <<st0, old, new, fault, got, body>>

DoSetActive == /\ step = "setactive"
               /\ LET x == Exchange("setactive", Cmd("SETACTIVE", new, "")) IN
                  /\ st' = x.st /\ log' = Append(log, "SETACTIVE")
                  /\ IF Dead(x) THEN Finish("error")
                     ELSE IF x.status = "NO" THEN Finish("false")
                     ELSE step' = "delete" /\ UNCHANGED res
               /\ UNCHANGED <<st0, old, new, fault, got, body>>

DoDelete == /\ step = "delete"
            /\ LET x == Exchange("delete", Cmd("DELETESCRIPT", old, "")) IN
               /\ st' = x.st /\ log' = Append(log, "DELETESCRIPT")
               /\ IF Dead(x) THEN Finish("error")
                  ELSE IF x.status = "NO" THEN Finish("false")
                  ELSE Finish("true")
            /\ UNCHANGED <<st0, old, new, fault, got, body>>

Next == DoList \/ DoGet \/ DoPut \/ DoSetActive \/ DoDelete
RSpec == Init /\ [][Next]_vars

\* C14 on the reference design, in every intermediate state for NoLoss/NoOverwrite
InvNoLoss == RenameNoLoss(st0, st, old, new)
InvNoOverwrite == RenameNoOverwrite(st0, st, old, new)
InvSuccessPost == (step = "done" /\ res = "true") => RenameSuccessPost(st0, st, old, new)
\* a reply that never arrives after the server acted cannot be told from one that was never
\* acted on: the only thing a client can promise then is that nothing is lost (above)
InvFailsCleanly == step = "done" => res \in {"true", "false", "error"}

EmitRename == (step = "done") =>
  PrintT(ToJson(<<[n \in DOMAIN st0.scripts |-> st0.scripts[n]], st0.active, old, new, fault.at, fault.kind, res, log,
                  [n \in DOMAIN st.scripts |-> st.scripts[n]], st.active>>))
=============================================================================
