------------------------------ MODULE FiltersSet ------------------------------
(***************************************************************************)
(* sievelib.factory.FiltersSet as what its documentation says it is: an    *)
(* ordered list of uniquely named filters, each enabled or disabled, with  *)
(* an optional description, plus save/load.  One action per public         *)
(* editing operation, each with its return value.  This *is* the reference *)
(* list model C12 asks for; Reload (render, parse, from_parser_result into *)
(* a fresh set) is the identity on this state (C11).                       *)
(*                                                                         *)
(* TLC enumerates every operation sequence up to MaxOps over a small pool  *)
(* of names (so that collisions, repeats and boundary moves are frequent)  *)
(* and prints each with the return value and the state after every step;   *)
(* the harness performs the same calls on a real FiltersSet and compares   *)
(* its projection step by step.                                            *)
(***************************************************************************)
EXTENDS Naturals, Sequences, FiniteSets, TLC, SequencesExt, Json

CONSTANTS Names,        \* names that get used for filters
          Unknown,      \* a name never added
          Defs,         \* abstract filter definitions
          Descs,        \* descriptions for replacefilter ("" = none given)
          MaxOps,
          InitFs,       \* sequence of <<name, def>> added before the enumeration starts
          Ops,          \* operation kinds to enumerate
          EnabledDevs

VARIABLES fs,           \* sequence of [name, enabled, def, desc]
          hist          \* <<op, ret, state after>> per step
vars == <<fs, hist>>

Filter(n, d) == [name |-> n, enabled |-> TRUE, def |-> d, desc |-> ""]
Idx(n) == LET S == {i \in 1..Len(fs) : fs[i].name = n} IN IF S = {} THEN 0 ELSE CHOOSE i \in S : TRUE
Exists(n) == Idx(n) # 0
Swap(s, i, j) == [s EXCEPT ![i] = s[j], ![j] = s[i]]

Init == fs = [i \in 1..Len(InitFs) |-> Filter(InitFs[i][1], InitFs[i][2])] /\ hist = <<>>

Do(op, ret, nfs) == /\ Len(hist) < MaxOps
                    /\ fs' = nfs
                    /\ hist' = Append(hist, <<op, ret, nfs>>)

OpAdd(n, d) ==
  IF Exists(n) THEN Do(<<"add", n, d>>, "raise:FilterAlreadyExists", fs)
  ELSE Do(<<"add", n, d>>, "None", Append(fs, Filter(n, d)))

OpUpdate(o, n, d) ==
  IF ~Exists(o) THEN Do(<<"update", o, n, d>>, "False", fs)
  ELSE IF n # o /\ Exists(n) THEN Do(<<"update", o, n, d>>, "raise:FilterAlreadyExists", fs)
  ELSE Do(<<"update", o, n, d>>, "True", [fs EXCEPT ![Idx(o)].name = n, ![Idx(o)].def = d])

\* replacefilter(old, getfilter(src), newname, description): content taken from filter src
OpReplace(o, src, n, ds) ==
  LET nn == IF n = "" THEN o ELSE n IN
  IF ~Exists(o) THEN Do(<<"replace", o, src, n, ds>>, "False", fs)
  ELSE IF nn # o /\ Exists(nn) THEN Do(<<"replace", o, src, n, ds>>, "raise:FilterAlreadyExists", fs)
  ELSE Do(<<"replace", o, src, n, ds>>, "True",
          [fs EXCEPT ![Idx(o)].name = nn, ![Idx(o)].def = fs[Idx(src)].def,
                     ![Idx(o)].desc = IF ds = "" THEN @ ELSE ds])

OpRemove(n) ==
  IF ~Exists(n) THEN Do(<<"remove", n>>, "False", fs)
  ELSE Do(<<"remove", n>>, "True", SelectSeq(fs, LAMBDA f : f.name # n))

OpEnable(n) ==
  IF ~Exists(n) THEN Do(<<"enable", n>>, "False", fs)
  ELSE IF fs[Idx(n)].enabled THEN Do(<<"enable", n>>, "any", fs)        \* nothing to do: return value unspecified
  ELSE Do(<<"enable", n>>, "True", [fs EXCEPT ![Idx(n)].enabled = TRUE])

OpDisable(n) ==
  IF ~Exists(n) THEN Do(<<"disable", n>>, "False", fs)
  ELSE IF ~fs[Idx(n)].enabled THEN Do(<<"disable", n>>, "any", fs)     \* already disabled: still disabled, once
  ELSE Do(<<"disable", n>>, "True", [fs EXCEPT ![Idx(n)].enabled = FALSE])

OpMove(n, dir) ==
  LET i == Idx(n) IN
  IF i = 0 THEN Do(<<"move", n, dir>>, "False", fs)
  ELSE IF dir = "up" /\ i = 1 THEN Do(<<"move", n, dir>>, "False", fs)
  ELSE IF dir = "down" /\ i = Len(fs) THEN Do(<<"move", n, dir>>, "False", fs)
  ELSE Do(<<"move", n, dir>>, "True", Swap(fs, i, IF dir = "up" THEN i - 1 ELSE i + 1))

\* save as a script and load back: the identity (C11)
OpReload == Do(<<"reload">>, "None", fs)

AllNames == Names \cup {Unknown}
Next ==
  \/ "add" \in Ops /\ \E n \in AllNames, d \in Defs : OpAdd(n, d)
  \/ "update" \in Ops /\ \E o \in AllNames, n \in AllNames, d \in Defs : OpUpdate(o, n, d)
  \/ "replace" \in Ops /\ \E o \in AllNames, src \in Names, n \in Names \cup {""}, ds \in Descs :
                             Exists(src) /\ OpReplace(o, src, n, ds)
  \/ "remove" \in Ops /\ \E n \in AllNames : OpRemove(n)
  \/ "enable" \in Ops /\ \E n \in AllNames : OpEnable(n)
  \/ "disable" \in Ops /\ \E n \in AllNames : OpDisable(n)
  \/ "move" \in Ops /\ \E n \in AllNames, dir \in {"up", "down"} : OpMove(n, dir)
  \/ "reload" \in Ops /\ fs # <<>> /\ OpReload

Spec == Init /\ [][Next]_vars

\* ------------------------------------------------------------ invariants
UniqueNames == \A i, j \in 1..Len(fs) : fs[i].name = fs[j].name => i = j
\* update/replace keep position and status; move is an adjacent swap; unknown names change nothing
StepProps ==
  \A k \in 1..Len(hist) :
    LET before == IF k = 1 THEN [i \in 1..Len(InitFs) |-> Filter(InitFs[i][1], InitFs[i][2])] ELSE hist[k - 1][3]
        after == hist[k][3]
        op == hist[k][1]
    IN /\ (op[1] \in {"update", "replace"} /\ hist[k][2] = "True" =>
             /\ Len(after) = Len(before)
             /\ \A i \in 1..Len(before) : after[i].enabled = before[i].enabled
             /\ \A i \in 1..Len(before) : before[i].name # op[2] => after[i] = before[i])
       /\ (op[1] = "move" /\ hist[k][2] = "True" =>
             \E i \in 1..(Len(before) - 1) : after = Swap(before, i, i + 1))
       /\ (hist[k][2] \in {"False", "raise:FilterAlreadyExists"} => after = before)

Emit == (Len(hist) = MaxOps) => PrintT(ToJson(hist))
=============================================================================
