---------------------------- MODULE SieveTable ----------------------------
(***************************************************************************)
(* The frozen command table of the supported Sieve language.               *)
(* Transcribed from RFC 5228 (base), 5229 (variables: set), 5230           *)
(* (vacation), 6131 (vacation-seconds), 5231 (relational), 5232            *)
(* (imap4flags), 5173 (body), 5260 (date), 3894 (copy), 5490 (mailbox),    *)
(* 5429 (reject), the regex draft, restricted to what sievelib claims to   *)
(* support (README "Supported extensions") at the pinned commit.           *)
(*                                                                         *)
(* An entry:                                                               *)
(*   kind   : "control" | "action" | "test"                                *)
(*   ext    : extension that must be required before use ("" = none)       *)
(*   slots  : sequence of optional/required tag slots, any order, all      *)
(*            before the positional arguments.  A slot is                  *)
(*            [tags, ptype, pvals, pfor, ext, tagext, req]                 *)
(*              tags   set of tag spellings (lower case, with colon)       *)
(*              ptype  "none" | "S" | "N" | "L"  type of the parameter     *)
(*              pvals  allowed parameter values ({} = any)                 *)
(*              pfor   tags of the slot that take the parameter            *)
(*              ext    extension needed by the whole slot ("" = none)      *)
(*              tagext function tag -> extension for single tags           *)
(*              req    TRUE if the slot must be filled (size)              *)
(*   pos    : sequence of positionals [types \subseteq {"S","N","L"}, opt] *)
(*            "S" string (quoted or multi-line), "L" bracketed list,       *)
(*            "N" number.  A `string-list' position is {"S","L"}.          *)
(*            opt = TRUE only for a leading optional positional.           *)
(*   tests  : "none" | "one" | "list"                                      *)
(*   block  : TRUE if the command is followed by a block                   *)
(*   follow : names the previous sibling must have ({} = anything)         *)
(***************************************************************************)
EXTENDS Naturals, Sequences, FiniteSets, TLC

NoFn == <<>>   \* the empty function

Slot(tags, ptype, pvals, pfor, ext, tagext, req) ==
  [tags |-> tags, ptype |-> ptype, pvals |-> pvals, pfor |-> pfor,
   ext |-> ext, tagext |-> tagext, req |-> req]

P(types, opt) == [types |-> types, opt |-> opt]
SL  == P({"S", "L"}, FALSE)      \* string-list
STR == P({"S"}, FALSE)
NUM == P({"N"}, FALSE)

Entry(kind, ext, slots, pos, tests, block, follow) ==
  [kind |-> kind, ext |-> ext, slots |-> slots, pos |-> pos,
   tests |-> tests, block |-> block, follow |-> follow]

RelVals == {"gt", "ge", "lt", "le", "eq", "ne"}
MT  == Slot({":is", ":contains", ":matches", ":count", ":value", ":regex"},
            "S", RelVals, {":count", ":value"}, "",
            (":count" :> "relational") @@ (":value" :> "relational") @@ (":regex" :> "regex"),
            FALSE)
CMP == Slot({":comparator"}, "S", {"i;octet", "i;ascii-casemap"}, {":comparator"},
            "", NoFn, FALSE)
AP  == Slot({":localpart", ":domain", ":all"}, "none", {}, {}, "", NoFn, FALSE)
Flag(t, e)      == Slot({t}, "none", {}, {}, e, NoFn, FALSE)
TagP(t, ty, e)  == Slot({t}, ty, {}, {t}, e, NoFn, FALSE)

FlagAct == Entry("action", "imap4flags", <<>>, <<P({"S"}, TRUE), SL>>, "none", FALSE, {})

BaseCmds ==
     ("require"  :> Entry("control", "", <<>>, <<SL>>, "none", FALSE, {}))
  @@ ("if"       :> Entry("control", "", <<>>, <<>>, "one", TRUE, {}))
  @@ ("elsif"    :> Entry("control", "", <<>>, <<>>, "one", TRUE, {"if", "elsif"}))
  @@ ("else"     :> Entry("control", "", <<>>, <<>>, "none", TRUE, {"if", "elsif"}))
  @@ ("set"      :> Entry("control", "variables", <<>>, <<STR, STR>>, "none", FALSE, {}))
  @@ ("stop"     :> Entry("action", "", <<>>, <<>>, "none", FALSE, {}))
  @@ ("discard"  :> Entry("action", "", <<>>, <<>>, "none", FALSE, {}))
  @@ ("keep"     :> Entry("action", "", <<TagP(":flags", "L", "imap4flags")>>, <<>>, "none", FALSE, {}))
  @@ ("redirect" :> Entry("action", "", <<Flag(":copy", "copy")>>, <<STR>>, "none", FALSE, {}))
  @@ ("fileinto" :> Entry("action", "fileinto",
                          <<Flag(":copy", "copy"), Flag(":create", "mailbox"),
                            TagP(":flags", "L", "imap4flags")>>,
                          <<STR>>, "none", FALSE, {}))
  @@ ("reject"   :> Entry("action", "reject", <<>>, <<STR>>, "none", FALSE, {}))
  @@ ("setflag"    :> FlagAct)
  @@ ("addflag"    :> FlagAct)
  @@ ("removeflag" :> FlagAct)
  @@ ("vacation" :> Entry("action", "vacation",
                          <<TagP(":subject", "S", ""), TagP(":days", "N", ""),
                            TagP(":seconds", "N", "vacation-seconds"),
                            TagP(":from", "S", ""), TagP(":addresses", "L", ""),
                            TagP(":handle", "S", ""), Flag(":mime", "")>>,
                          <<STR>>, "none", FALSE, {}))
  @@ ("true"     :> Entry("test", "", <<>>, <<>>, "none", FALSE, {}))
  @@ ("false"    :> Entry("test", "", <<>>, <<>>, "none", FALSE, {}))
  @@ ("not"      :> Entry("test", "", <<>>, <<>>, "one", FALSE, {}))
  @@ ("anyof"    :> Entry("test", "", <<>>, <<>>, "list", FALSE, {}))
  @@ ("allof"    :> Entry("test", "", <<>>, <<>>, "list", FALSE, {}))
  @@ ("exists"   :> Entry("test", "", <<>>, <<SL>>, "none", FALSE, {}))
  @@ ("size"     :> Entry("test", "",
                          <<Slot({":over", ":under"}, "none", {}, {}, "", NoFn, TRUE)>>,
                          <<NUM>>, "none", FALSE, {}))
  @@ ("header"   :> Entry("test", "", <<CMP, MT>>, <<SL, SL>>, "none", FALSE, {}))
  @@ ("address"  :> Entry("test", "", <<CMP, AP, MT>>, <<SL, SL>>, "none", FALSE, {}))
  @@ ("envelope" :> Entry("test", "envelope", <<CMP, AP, MT>>, <<SL, SL>>, "none", FALSE, {}))
  @@ ("body"     :> Entry("test", "body",
                          <<CMP, MT, Slot({":raw", ":content", ":text"}, "L", {}, {":content"}, "", NoFn, FALSE)>>,
                          <<SL>>, "none", FALSE, {}))
  @@ ("hasflag"  :> Entry("test", "imap4flags", <<CMP, MT>>, <<P({"S", "L"}, TRUE), SL>>, "none", FALSE, {}))
  @@ ("date"     :> Entry("test", "date",
                          <<Slot({":zone", ":originalzone"}, "S", {}, {":zone"}, "", NoFn, FALSE), CMP, MT>>,
                          <<STR, STR, SL>>, "none", FALSE, {}))
  @@ ("currentdate" :> Entry("test", "date",
                          <<TagP(":zone", "S", ""), CMP, MT>>,
                          <<STR, SL>>, "none", FALSE, {}))

\* Extension names the table knows (a require of anything else is `unknownExt').
KnownExts == {"fileinto", "reject", "envelope", "body", "vacation", "vacation-seconds",
              "variables", "date", "imap4flags", "copy", "mailbox", "relational", "regex"}

\* helpers over an entry
SlotOf(E, tag) ==    \* index of the slot that contains tag, 0 if none
  LET S == {k \in 1..Len(E.slots) : tag \in E.slots[k].tags}
  IN IF S = {} THEN 0 ELSE CHOOSE k \in S : TRUE

NReqPos(E) == Cardinality({i \in 1..Len(E.pos) : ~E.pos[i].opt})
NOptPos(E) == Len(E.pos) - NReqPos(E)
ReqSlots(E) == {k \in 1..Len(E.slots) : E.slots[k].req}
=============================================================================
