SPECIFICATION RSpec
CONSTANTS
 Names = {"a", "b"}
 Bodies = {"B1", "B2"}
 FaultKinds = {"NO", "BYE", "silence", "lost"}
INVARIANT InvNoLoss
INVARIANT InvNoOverwrite
INVARIANT InvSuccessPost
INVARIANT InvFailsCleanly
CHECK_DEADLOCK FALSE
