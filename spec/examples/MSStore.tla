------------------------------ MODULE MSStore ------------------------------
(***************************************************************************)
(* A ManageSieve server's script store (RFC 5804 sections 2.5-2.12), the   *)
(* client operations on it, and the client's *emulated* RENAMESCRIPT       *)
(* (LISTSCRIPTS, GETSCRIPT, PUTSCRIPT, [SETACTIVE], DELETESCRIPT) with a   *)
(* fault at any step.                                                      *)
(*                                                                         *)
(* Srv(st, cmd) is the server's semantics as a pure operator: new store    *)
(* and abstract reply.  It is used three times: by the reference client    *)
(* of MSRename (design-level model checking of C14), by the scenario       *)
(* generator for whole sessions (MSSessGen, C15) and by MSStoreTrace,      *)
(* which re-executes the commands the real client sent and judges it.      *)
(***************************************************************************)
EXTENDS Naturals, Sequences, FiniteSets, TLC, SequencesExt, Json

CONSTANTS Names,          \* script names in play
          Bodies          \* script contents (abstract identities)

None == ""                \* no active script

\* ------------------------------------------------------------ the server
\* store: [scripts : function from a subset of Names to Bodies, active : name or None]
Has(st, n) == n \in DOMAIN st.scripts
Reply(status, code, data) == [status |-> status, code |-> code, data |-> data]
OK(data) == Reply("OK", "", data)
NO(code) == Reply("NO", code, <<>>)
Drop(f, n) == [x \in DOMAIN f \ {n} |-> f[x]]

\* listing as data: sequence of <<name, isActive>> (order immaterial)
Listing(st) == LET ns == SetToSeq(DOMAIN st.scripts)
               IN [i \in 1..Len(ns) |-> <<ns[i], ns[i] = st.active>>]

\* cmd: [verb, a, b]
Srv(st, cmd) ==
  CASE cmd.verb = "LISTSCRIPTS" -> [st |-> st, reply |-> OK(Listing(st))]
    [] cmd.verb = "GETSCRIPT" ->
         IF Has(st, cmd.a) THEN [st |-> st, reply |-> OK(<<st.scripts[cmd.a]>>)]
         ELSE [st |-> st, reply |-> NO("NONEXISTENT")]
    [] cmd.verb = "PUTSCRIPT" ->
         [st |-> [st EXCEPT !.scripts = (cmd.a :> cmd.b) @@ @], reply |-> OK(<<>>)]
    [] cmd.verb = "SETACTIVE" ->
         IF cmd.a = None THEN [st |-> [st EXCEPT !.active = None], reply |-> OK(<<>>)]
         ELSE IF Has(st, cmd.a) THEN [st |-> [st EXCEPT !.active = cmd.a], reply |-> OK(<<>>)]
         ELSE [st |-> st, reply |-> NO("NONEXISTENT")]
    [] cmd.verb = "DELETESCRIPT" ->
         IF ~Has(st, cmd.a) THEN [st |-> st, reply |-> NO("NONEXISTENT")]
         ELSE IF st.active = cmd.a THEN [st |-> st, reply |-> NO("ACTIVE")]
         ELSE [st |-> [st EXCEPT !.scripts = Drop(@, cmd.a)], reply |-> OK(<<>>)]
    [] cmd.verb = "RENAMESCRIPT" ->
         IF ~Has(st, cmd.a) THEN [st |-> st, reply |-> NO("NONEXISTENT")]
         ELSE IF Has(st, cmd.b) THEN [st |-> st, reply |-> NO("ALREADYEXISTS")]
         ELSE [st |-> [scripts |-> (cmd.b :> st.scripts[cmd.a]) @@ Drop(st.scripts, cmd.a),
                       active |-> IF st.active = cmd.a THEN cmd.b ELSE st.active],
               reply |-> OK(<<>>)]
    [] OTHER -> [st |-> st, reply |-> OK(<<>>)]      \* HAVESPACE, CHECKSCRIPT, CAPABILITY ...

Cmd(verb, a, b) == [verb |-> verb, a |-> a, b |-> b]

\* ------------------------------------------------ C14, over (before, after)
RenameNoLoss(s0, s1, old, new) ==
  \A n \in DOMAIN s0.scripts :
     \/ (Has(s1, n) /\ s1.scripts[n] = s0.scripts[n])
     \/ (n = old /\ Has(s1, new) /\ s1.scripts[new] = s0.scripts[old])
RenameNoOverwrite(s0, s1, old, new) ==
  \A n \in DOMAIN s0.scripts \ {old} : Has(s1, n) /\ s1.scripts[n] = s0.scripts[n]
RenameSuccessPost(s0, s1, old, new) ==
  /\ Has(s0, old)
  /\ (old # new => ~Has(s1, old))
  /\ Has(s1, new) /\ s1.scripts[new] = s0.scripts[old]
  /\ (s0.active = old => s1.active = new)
  /\ (s0.active # old => s1.active = s0.active)

=============================================================================
