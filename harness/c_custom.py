"""Check C20: registered custom commands are parsed and printed according to their definition.

The reference recogniser SieveGrammar is generic over the command table; here the table is extended
with one custom entry per run (constant Custom of SieveEnum), drawn from a generator of definitions of
the documented shape.  For each definition TLC enumerates every use up to a length bound (valid uses and
every one-token-invalid variant arise naturally); the harness builds the class in README format,
registers it with add_commands in fresh worker processes and replays as for C01/C03/C04/C07, and also
checks that arguments are recorded under the defined names.
"""
import itertools
import json
import os
import random
import time
from concurrent.futures import ThreadPoolExecutor

from . import evidence, findings, pengine, slices
from .tlc import tla_val, tla_str

VERIF = os.path.dirname(os.path.dirname(os.path.abspath(__file__)))
CNAME = "xnotify"


def cname_of(d):
    """the name the definition is registered under: normally a new one; for some definitions the name of a command
    the library already has (registering replaces the built-in definition, RFC extensions are added that way)"""
    return d.get("cname", CNAME)


def gen_defs(tier, seed):
    rng = random.Random(seed + 20)
    slot_shapes = []
    for tags in ([":ta"], [":ta", ":tb"]):
        for ptype, pvals in (("none", None), ("S", None), ("S", ["v1", "v2"]), ("N", None), ("L", None)):
            pfors = [tags] if ptype == "none" or len(tags) == 1 else [tags, tags[:1]]
            for pfor in pfors:
                slot_shapes.append({"tags": tags, "ptype": ptype, "pvals": pvals, "pfor": pfor if ptype != "none" else []})
    pos_shapes = [["S"], ["SL"], ["N"], ["S", "SL"], ["SL", "SL"], ["N", "S"], ["S", "S", "SL"]]
    defs = []
    for kind in ("action", "test"):
        for ext in ("", "xext"):
            for nslots in (0, 1, 2):
                for slots in itertools.product(slot_shapes, repeat=nslots):
                    if nslots == 2:
                        # second slot gets distinct tag names
                        s2 = dict(slots[1])
                        ren = {":ta": ":tc", ":tb": ":td"}
                        s2["tags"] = [ren[t] for t in s2["tags"]]
                        s2["pfor"] = [ren[t] for t in s2["pfor"]]
                        slots = (slots[0], s2)
                    for pos in pos_shapes:
                        defs.append({"kind": kind, "ext": ext, "slots": [dict(s) for s in slots], "pos": pos,
                                     "ptype_spelling": "list"})
    rng.shuffle(defs)
    n = 36 if tier == "quick" else 700
    # always keep a few canonical ones first (README shape, test with extension, string spelling of the type)
    canon = [
        {"kind": "action", "ext": "", "slots": [{"tags": [":testtag"], "ptype": "N", "pvals": None, "pfor": [":testtag"]}],
         "pos": ["SL"], "ptype_spelling": "str"},
        {"kind": "test", "ext": "xext", "slots": [{"tags": [":ta", ":tb"], "ptype": "S", "pvals": ["v1", "v2"], "pfor": [":ta"]}],
         "pos": ["S", "SL"], "ptype_spelling": "list"},
        {"kind": "action", "ext": "xext", "slots": [{"tags": [":ta"], "ptype": "L", "pvals": None, "pfor": [":ta"]},
                                                   {"tags": [":tc"], "ptype": "none", "pvals": None, "pfor": []}],
         "pos": ["N", "S"], "ptype_spelling": "str"},
        # a free-form tag (no "values" in its definition: any tag not claimed by an earlier definition entry), defined
        # after a typed tag and usable before it (seed C20j); its tag set in the specification is every other tag of
        # the vocabulary
        {"kind": "action", "ext": "", "slots": [{"tags": [":ta"], "ptype": "N", "pvals": None, "pfor": [":ta"]},
                                                {"tags": [":free", ":bogus"], "ptype": "none", "pvals": None, "pfor": [],
                                                 "freeform": True}],
         "pos": ["SL"], "ptype_spelling": "list"},
    ]
    out = canon + defs[:n]
    for k, d in enumerate(out):
        if k % 6 == 4:
            d["cname"] = "redirect" if d["kind"] == "action" else "exists"
    return out


def tla_entry(d):
    def slot(s):
        return ("Slot(%s, %s, %s, %s, \"\", <<>>, FALSE)" % (
            tla_val(set(s["tags"])), tla_str(s["ptype"]), tla_val(set(s["pvals"] or [])), tla_val(set(s["pfor"]))))

    def pos(t):
        return {"S": "STR", "SL": "SL", "N": "NUM"}[t]
    return "(%s :> Entry(%s, %s, <<%s>>, <<%s>>, \"none\", FALSE, {}))" % (
        tla_str(cname_of(d)), tla_str(d["kind"]), tla_str(d["ext"]), ", ".join(slot(s) for s in d["slots"]),
        ", ".join(pos(t) for t in d["pos"]))


def args_definition(d):
    """the README's format"""
    out = []
    for i, s in enumerate(d["slots"]):
        a = {"name": "slot%d" % (i + 1), "type": ["tag"], "values": list(s["tags"]), "required": False}
        if s.get("freeform"):
            del a["values"]
        if s["ptype"] != "none":
            if d["ptype_spelling"] == "str":
                ty = {"S": "string", "N": "number", "L": "stringlist"}[s["ptype"]]
            else:
                ty = {"S": ["string"], "N": ["number"], "L": ["string", "stringlist"]}[s["ptype"]]
            ea = {"type": ty}
            if s["pvals"]:
                ea["values"] = ['"%s"' % v for v in s["pvals"]]
            if set(s["pfor"]) != set(s["tags"]):
                ea["valid_for"] = list(s["pfor"])
            a["extra_arg"] = ea
        out.append(a)
    for i, t in enumerate(d["pos"]):
        out.append({"name": "pos%d" % (i + 1), "type": {"S": ["string"], "SL": ["string", "stringlist"], "N": ["number"]}[t],
                    "required": True})
    return out


def register(d):
    """runs in each worker process: build the class and register it"""
    from . import sieve_impl as I
    base = I.scommands.ActionCommand if d["kind"] == "action" else I.scommands.TestCommand
    attrs = {"args_definition": args_definition(d)}
    if d["ext"]:
        attrs["extension"] = d["ext"]
    # an earlier registration under the same name (another definition) must be replaced by the new one
    v0 = type(cname_of(d).capitalize() + "Command", (I.scommands.ActionCommand,),
              {"args_definition": [{"name": "only", "type": ["number"], "required": True}]})
    I.scommands.add_commands(v0)
    if (len(d["slots"]) + len(d["pos"])) % 2:
        # the class derives from another registered custom command with another definition (ordinary Python reuse of,
        # say, its callbacks), and that parent has already been used by a parser: nothing computed for the parent may
        # be taken for the child
        parent = type("XbaseCommand", (base,), {"args_definition": [{"name": "n", "type": ["number"], "required": True}]})
        I.scommands.add_commands(parent)
        I.sparser.Parser().parse(b"if xbase 5 { stop; }" if d["kind"] == "test" else b"xbase 5;")
        base = parent
    cls = type(cname_of(d).capitalize() + "Command", (base,), attrs)
    if len(d["pos"]) % 2:
        I.scommands.add_commands([cls])        # both documented call forms
    else:
        I.scommands.add_commands(cls)


def vocab_for(d):
    toks = [("id", cname_of(d))]
    if d["kind"] == "test":
        toks += [("id", "if"), ("id", "stop"), ("lc", ""), ("rc", "")]
    for s in d["slots"]:
        toks += [("tag", t) for t in s["tags"]]
        if s["pvals"]:
            toks.append(("str", s["pvals"][0]))
    toks += [("tag", ":bogus"), ("str", "a"), ("ml", "@dotline"), ("num", "5"), ("lb", ""), ("rb", ""), ("comma", ""), ("semi", "")]
    seen, out = set(), []
    for t in toks:
        if t not in seen:
            seen.add(t)
            out.append(t)
    return out


LIST_SHAPES = [["a"], ["a", "b"], ["a", "a"], ["a", "b", "a"], ["a", "a", "b"], ["b", "@innerq", "b", "@innerq"]]


def deep_uses(d):
    """complete uses of the custom command that the enumeration bound cannot reach: every string-list position filled
    with lists of several shapes (one item, distinct items, an item repeated -- also as the last one)"""
    from . import render as R
    out = []
    for shape in LIST_SHAPES:
        lst = [("lb", "")]
        for i, v in enumerate(shape):
            lst += ([("comma", "")] if i else []) + [("str", v)]
        lst.append(("rb", ""))
        for with_tags in (True, False):
            toks = [("id", cname_of(d))]
            if with_tags:
                for s in d["slots"]:
                    toks.append(("tag", s["pfor"][0] if s["pfor"] else s["tags"][0]))
                    if s["ptype"] == "S":
                        toks.append(("str", s["pvals"][0] if s["pvals"] else "a"))
                    elif s["ptype"] == "N":
                        toks.append(("num", "5"))
                    elif s["ptype"] == "L":
                        toks += lst
            for t in d["pos"]:
                toks += {"S": [("str", "a")], "N": [("num", "5")], "SL": lst}[t]
            if d["kind"] == "test":
                toks = [("id", "if")] + toks + [("lc", ""), ("id", "stop"), ("semi", ""), ("rc", "")]
            else:
                toks.append(("semi", ""))
            toks = (slices.req("xext") if d["ext"] else []) + toks
            for lay in ("space", "crlf"):
                out.append(R.render(toks, lay)[0])
    return list(dict.fromkeys(out))


def _deep_worker(task):
    d, devs = task
    from . import ptrace
    register(d)
    recs, cnt, st = ptrace.judge_scripts(deep_uses(d), devs, custom=tla_entry(d), roundtrip=True)
    return recs, cnt, {k: st.get(k) for k in ("error", "violated", "distinct", "states")}


def named_expectation(d, flat):
    """spec tree -> list of {argname: value} for the custom nodes"""
    out = []
    for name, par, role, args, blk in flat:
        if name != cname_of(d):
            continue
        m = {}
        npos = 0
        for tag, val in args:
            if tag == "":
                npos += 1
                m["pos%d" % npos] = pengine.conv_val(val, False)
            else:
                for i, s in enumerate(d["slots"]):
                    if tag in s["tags"]:
                        m["slot%d" % (i + 1)] = [tag, pengine.conv_val(val, False)]
        out.append(m)
    return out


def run(prop, tier, seed):
    t0 = time.time()
    defs = gen_defs(tier, seed)
    devs = findings.open_devs("SieveGrammar")
    bydev = findings.by_dev()
    layouts = ["space", "upper", "crlf", "compact"]
    results = []

    def one(idx_d):
        idx, d = idx_d
        nlen = min(2 * len(d["slots"]) + len(d["pos"]) + 3 + (3 if d["kind"] == "test" else 0), 6 if tier == "quick" else 8)
        runs = []
        sl = {"name": "custom%d" % idx, "vocab": vocab_for(d), "prelude": slices.req("xext") if d["ext"] else [],
              "custom": tla_entry(d), "devs": devs}
        runs.append(pengine.run_slice(sl, nlen, layouts, 2, 1, [" ;", " }", " stop;"], nproc=2, tlc_workers=2,
                                      roundtrip=True, worker_setup=(register, d), named=cname_of(d)))
        if d["ext"]:
            sl2 = dict(sl, name="custom%dnoext" % idx, prelude=[])
            runs.append(pengine.run_slice(sl2, 3, layouts, 2, 0, [], nproc=1, tlc_workers=2, roundtrip=True,
                                          worker_setup=(register, d), named=cname_of(d)))
        if any(t == "SL" for t in d["pos"]) or any(sx["ptype"] == "L" for sx in d["slots"]):
            if idx < (14 if tier == "quick" else 150):
                import multiprocessing as mp
                with mp.get_context("fork").Pool(1) as pool:
                    recs, cnt, st = pool.apply(_deep_worker, ((d, devs),))
                res = {"error": st["error"], "violated": st["violated"], "distinct": st["distinct"] or 0, "states": st["states"] or 0,
                       "lines": 0, "depth": 0, "wall": 0}
                if cnt.get("missing"):
                    res["error"] = "SieveTrace returned no verdict for %d deep uses" % cnt["missing"]
                runs.append((res, {"parses": cnt["parses"], "lines": cnt["parses"]}, recs))
        return idx, d, runs

    with ThreadPoolExecutor(max_workers=7) as ex:
        for r in ex.map(one, list(enumerate(defs))):
            results.append(r)
    # unregistered names remain unknown: a plain parser process (this one never registered anything)
    from . import sieve_impl as I
    machinery, viols, known = [], [], {}
    p = I.new_parser()
    o = I.run_parse(p, (CNAME + ' "a";').encode())
    if not (o["verdict"] is False and "unknown command" in (o["error"] or "")):
        viols.append({"def": None, "failed": {"C20": "unregistered name is not unknown: %r" % (o,)}, "text": CNAME + ' "a";', "expl": None})
    states = trans = parses = lines = 0
    for idx, d, runs in results:
        for res, total, recs in runs:
            if res["error"] or res["violated"]:
                machinery.append("definition %d: TLC %s %s | %s" % (idx, res["error"], res["violated"], tla_entry(d)))
            states += res["distinct"]
            trans += res["states"]
            parses += total.get("parses", 0)
            lines += total.get("lines", 0)
            for r in recs:
                bad = {k: v for k, v in r["failed"].items() if k in ("C01", "C03", "C04", "C07", "C20")}
                if not bad:
                    continue
                r = dict(r)
                r["def"] = d
                r["failed"] = {"C20": "; ".join("%s: %s" % kv for kv in sorted(bad.items()))}
                ex = r["expl"]
                if ex and all(x in devs for x in ex):
                    for x in ex:
                        known.setdefault(x, []).append(r)
                else:
                    viols.append(r)
    rc = 0
    for m in machinery[:5]:
        print("MACHINERY-FAILURE " + m)
        rc = 2
    for dname, rs in sorted(known.items()):
        print("KNOWN-FINDING: property=C20 %s (%s): %s [%d cases]" % (bydev[dname]["id"], dname, bydev[dname]["what"], len(rs)))
    os.makedirs(os.path.join(VERIF, "build", "replay"), exist_ok=True)
    seen, k = set(), 0
    for r in viols:
        key = r["failed"]["C20"][:50]
        if key in seen or k >= 12:
            continue
        seen.add(key)
        path = os.path.join(VERIF, "build", "replay", "C20_%d.json" % k)
        with open(path, "w") as fp:
            json.dump({"property": "C20", "case": r}, fp, indent=1, default=str, ensure_ascii=False)
        print("VIOLATION property=C20 replay=%s  # %s | %r | def %s" % (path, r["failed"]["C20"][:200], r.get("text", "")[-80:],
                                                                       json.dumps(args_definition(r["def"]))[:300] if r.get("def") else ""))
        k += 1
    if viols and rc == 0:
        rc = 1
    cov = {"states": states, "transitions": trans, "traces_validated_against_impl": parses,
           "samples": [{"definition": args_definition(defs[i]), "kind": defs[i]["kind"], "extension": defs[i]["ext"],
                        "table_entry": tla_entry(defs[i])} for i in (0, 1, 2)],
           "exhaustive": False, "evaluations": parses, "distinct_nontrivial": lines,
           "rule": "%d argument definitions (3 canonical + seeded sample of the generator's space: 0-2 tag slots with 1-2 tags, parameter "
                   "none/string/number/stringlist, optional value restriction, optional valid_for subset; 1-3 required positionals; action or "
                   "test; with or without extension); for each, every use up to the length bound (TLC exhaustive) under 2 layouts" % len(defs),
           "definitions": len(defs), "known_finding_cases": {d: len(v) for d, v in known.items()}, "violating_cases": len(viols),
           "trusted_base": ["args_definition(): abstract definition -> README dict format", "tla_entry(): abstract definition -> SieveTable entry"]}
    evidence.write("C20", tier, seed, t0, cov, len(viols), ["definitions are sampled from the generator's space (seeded); uses are exhaustive within the bound"])
    return rc
