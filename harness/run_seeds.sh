#!/bin/sh
# usage: harness/run_seeds.sh <seed>...   every quick check under each seed; prints only non-zero exits
mkdir -p build
for sd in "$@"; do
  for c in C01 C02 C03 C04 C05 C06 C07 C08 C09 C10 C11 C12 C13 C14 C15 C16 C17 C18 C19 C20; do
    VERIF_SEED=$sd ./check $c --tier quick > build/seed_$c.out 2>&1; rc=$?
    [ $rc -ne 0 ] && echo "seed=$sd $c rc=$rc $(grep '^VIOLATION\|^MACHINERY' build/seed_$c.out | head -2 | cut -c1-300)"
  done
  echo "seed $sd done"
done
