"""Checks C10 (command gating, TLS before credentials) and C16 (SASL mechanism and payload).

TLC (spec/MSSession.tla) explores every call history up to MaxCalls with every server reaction
at every step and prints each as a script.  The script's *environment half* (server reactions,
capability views, handshake results) is replayed against the real Client with scripted plain/TLS
sockets; what the client really does is recorded as raw events and judged by TLC again
(spec/MSSessionTrace.tla), which keeps the server-side truth and evaluates the C10/C16 clauses at
every write and return.  For C16 the AUTHENTICATE payloads are decoded per mechanism.
"""
import base64
import hashlib
import inspect
import json
import multiprocessing as mp
import os
import random
import tempfile
import time

from . import digestmd5, evidence, findings, rfc5804
from .tlc import run_tlc, tla_val, BUILD

VERIF = os.path.dirname(os.path.dirname(os.path.abspath(__file__)))
ABSENT = ["-absent-"]
OPS = {"LISTSCRIPTS": ("listscripts", ()), "PUTSCRIPT": ("putscript", ("s", "keep;\r\n")),
       "HAVESPACE": ("havespace", ("s", 3)), "DELETESCRIPT": ("deletescript", ("s",)),
       "SETACTIVE": ("setactive", ("s",)), "GETSCRIPT": ("getscript", ("s",)),
       "LOGOUT": ("logout", ()), "CAPABILITY": ("capability", ())}
C10_CLAUSES = ("NoScriptCmdBeforeAuth", "NoCredsBeforeTLS", "MechFromPostTLSCaps", "MechAvailableNotTried")
C16_CLAUSES = ("MechRight", "MechFromPostTLSCaps", "ConnectTrueWithoutOK", "ConnectNotTrueAfterOK", "MechAvailableNotTried")


# (realm offered, nonce, qop-options) of the digest-challenge; all with charset=utf-8 and algorithm=md5-sess
DIGEST_VARIANTS = [(b"r", b"abc", b"auth"), (None, b"OA6MG9tEQGm2hh", b"auth"),
                   (b"example.org", b"x+/Yz0=", b"auth,auth-int"), (b"r", b"n-1", b"auth")]


def caps_bytes(c):
    """the capability view c on the wire; c["enc"] = "l": values are sent as literals (RFC 5804 1.7: a capability value
    is a `string', quoted or literal) -- the client's view must not depend on it"""
    lit = c.get("enc") == "l"

    def val(b):
        return b"{%d}\r\n%s" % (len(b), b) if lit else b'"' + b + b'"'
    lines = [b'"IMPLEMENTATION" ' + val(b"ref 1.0")]
    if c["sasl"] != ABSENT:
        lines.append(b'"SASL" ' + val(" ".join(c["sasl"]).encode()))
    lines.append(b'"SIEVE" ' + val(b"fileinto vacation"))
    if c["tls"]:
        lines.append(b'"STARTTLS"')
    return b"\r\n".join(lines) + b"\r\nOK\r\n"


def react(r, what=""):
    # "garbage": bytes that are no ManageSieve reply at all (then nothing more): like silence for a correct client
    return {"OK": b'OK "fine"\r\n', "NO": b'NO "refused"\r\n', "BYE": b'BYE "closing"\r\n', "silence": None,
            "garbage": b'\x16\x03\x01 <html>502</html>\r\n* junk "OK"\r\n', "reset": None}[r]


def tlc_histories(cfg, simulate=None, depth=None, seed=None):
    defs = "MCPairs == %s\n" % tla_val([{"pre": {"sasl": p["pre"]["sasl"], "tls": p["pre"]["tls"]},
                                         "post": {"sasl": p["post"]["sasl"], "tls": p["post"]["tls"]}} for p in cfg["pairs"]])
    c = ("SPECIFICATION Spec\nCONSTANTS\n MaxCalls = %d\n CapsPairs <- MCPairs\n Prefs = {%s}\n TLSArgs = {%s}\n"
         " Reactions = {%s}\n OpVerbs = {%s}\n EnabledDevs = {}\n"
         "INVARIANT Emit\nINVARIANT NoScriptCmdBeforeAuth\nINVARIANT NoCredsBeforeTLS\nINVARIANT MechRight\n"
         "INVARIANT ClientFlagSound\nCHECK_DEADLOCK FALSE\n"
         % (cfg["maxcalls"], ", ".join('"%s"' % p for p in cfg["prefs"]),
            ", ".join("TRUE" if t else "FALSE" for t in cfg["tls"]),
            ", ".join('"%s"' % r for r in cfg["reactions"]), ", ".join('"%s"' % v for v in cfg["ops"])))
    hs = []
    res = run_tlc("session", "MSSession", defs, c, on_value=hs.append, workers=8, simulate=simulate, depth=depth, seed=seed)
    return hs, res


# ------------------------------------------------------------------ replay
def sasl_mech_and_payload(items):
    """items: decoded commands of one write phase starting with AUTHENTICATE"""
    cmd = items[0]
    mech = cmd[2][0].decode("ascii", "replace") if cmd[2] else ""
    return mech


def replay(task):
    """one history -> observed raw events (+ per-AUTHENTICATE payload records)"""
    from . import ms_impl as M
    hist, pairs, creds = task
    login, password, authz = creds
    groups = []
    for e in hist:
        if e[0] == "call":
            groups.append([e])
        else:
            groups[-1].append(e)
    c = M.ms.Client("h")
    events = []
    payloads = []
    connid = 0
    cur = {"sock": None}
    for g in groups:
        call = g[0]
        srv = {e[1]: e[2] for e in g if e[0] == "srv"}
        if call[1] == "connect":
            _, _, want, pref, k = call
            pair = pairs[k - 1]
            connid += 1
            cid = connid
            events.append(["call", "connect", bool(want), pref])

            dm = {"step": 0, "rec": None}      # DIGEST-MD5 exchange in progress on this connection
            variant = (len(login) + len(password) + cid) % len(DIGEST_VARIANTS)
            dm_realm, dm_nonce, dm_qop = DIGEST_VARIANTS[variant]

            def mk_server(chan, cid=cid, srv=srv, dm=dm):
                def server(w, sock):
                    try:
                        items = rfc5804.decode(w)
                    except rfc5804.Malformed as ex:
                        events.append(["write", cid, chan, "MALFORMED", ""])
                        return b'NO "malformed"\r\n'
                    if dm["step"] in (1, 2):
                        # continuation of a DIGEST-MD5 exchange: one string, nothing else
                        step = dm["step"]
                        dm["step"] = 0
                        events.append(["write", cid, chan, "CONT", ""])
                        r = srv.get("auth2" if step == 1 else "auth3", "NO")
                        if len(items) != 1 or items[0][0] != "cont":
                            dm["rec"]["digest_problem"] = "DIGEST-MD5: step %d: expected one string, got %r" % (step + 1, items)
                            events.append(["reply", cid, "CONT", "NO"])
                            return b'NO "unexpected"\r\n'
                        if step == 1:
                            try:
                                raw = base64.b64decode(items[0][1], validate=True)
                            except Exception as e:   # noqa
                                dm["rec"]["digest_problem"] = "DIGEST-MD5: response is not base64 (%s)" % e
                                events.append(["reply", cid, "CONT", "NO"])
                                return b'NO "bad base64"\r\n'
                            prob, rsp = digestmd5.verify(raw, login, password, authz, dm_realm, dm_nonce, b"h")
                            dm["rec"]["digest_response"] = raw.decode("latin-1")
                            if prob:
                                dm["rec"]["digest_problem"] = prob
                                events.append(["reply", cid, "CONT", "NO"])
                                return b'NO "authentication failed"\r\n'
                            events.append(["reply", cid, "CONT", "challenge" if r == "OK" else r])
                            if r == "OK":
                                dm["step"] = 2
                                return digestmd5.b64q(rsp)
                            return react(r)
                        if items[0][1] != b"":
                            dm["rec"]["digest_problem"] = "DIGEST-MD5: step 3: expected an empty response, got %r" % items[0][1]
                            events.append(["reply", cid, "CONT", "NO"])
                            return b'NO "unexpected"\r\n'
                        events.append(["reply", cid, "AUTHENTICATE" if r == "OK" else "CONT", r])
                        return react(r)
                    out = None
                    first = True
                    for it in items:
                        if it[0] != "cmd":
                            continue
                        verb = it[1]
                        mech = ""
                        if verb == "AUTHENTICATE":
                            mech = it[2][0].decode("ascii", "replace") if it[2] else ""
                            payloads.append({"conn": cid, "chan": chan, "mech": mech, "items": items,
                                             "login": login, "password": password, "authz": authz})
                        events.append(["write", cid, chan, verb, mech])
                        if not first:
                            continue
                        first = False
                        if verb == "STARTTLS":
                            r = srv.get("starttls", "NO")
                            st = "OK" if r == "OK+inject" else r
                            out = react(st)
                            if r == "OK+inject":
                                out += caps_bytes(pair["pre"])
                        elif verb == "AUTHENTICATE":
                            r = srv.get("auth", "NO")
                            st = r
                            if mech == "DIGEST-MD5":
                                if len(items) != 1 or len(it[2]) != 1:
                                    payloads[-1]["digest_problem"] = "DIGEST-MD5: AUTHENTICATE carries more than the mechanism name: %r" % (items,)
                                if r == "OK":
                                    out = digestmd5.b64q(digestmd5.challenge(dm_realm, dm_nonce, dm_qop))
                                    st = "challenge"
                                    dm["step"] = 1
                                    dm["rec"] = payloads[-1]
                                else:
                                    out = react(r)
                            elif mech == "LOGIN":
                                out = b'"VXNlcm5hbWU6"\r\n"UGFzc3dvcmQ6"\r\n' + (react(r) or b"") if r != "silence" else None
                            else:
                                out = react(r)
                        elif verb == "LOGOUT":
                            st = "OK"
                            out = b"OK\r\n"
                        else:
                            st = "NO"
                            out = b'NO "unexpected"\r\n'
                        events.append(["reply", cid, verb, st])
                    return out
                return server
            plain = M.FakeSocket(mk_server("plain"), channel="plain")
            tls = M.FakeSocket(mk_server("tls"), channel="tls")
            events.append(["open", cid])
            g_r = srv.get("greeting", "OK")
            if g_r == "OK":
                plain.push(caps_bytes(pair["pre"]))
                events.append(["caps", cid, pair["pre"]["sasl"]])
            elif g_r in ("NO", "BYE", "garbage"):
                plain.push(react(g_r))
            hs_ok = srv.get("handshake", "OK") == "OK"
            pc = srv.get("postcaps", "OK")

            class Ctx(M.FakeTLSContext):
                def wrap_socket(self, sock, server_hostname=None, cid=cid):
                    r = M.FakeTLSContext.wrap_socket(self, sock, server_hostname)
                    events.append(["tlsup", cid])
                    if pc == "OK":
                        tls.push(caps_bytes(pair["post"]))
                        events.append(["caps", cid, pair["post"]["sasl"]])
                    elif pc in ("NO", "BYE", "garbage"):
                        tls.push(react(pc))
                    return r
            ctx = Ctx(tls, fail=not hs_ok)
            cur["sock"] = (plain, tls)
            with M.Patched([plain], tlsctx=ctx):
                kw = {"starttls": bool(want)}
                if pref:
                    kw["authmech"] = pref
                res = M.call(c.connect, login, password, authz, **kw)
        else:
            verb = call[2]
            meth, args = OPS[verb]
            events.append(["call", "op", verb])
            r = srv.get("op", "OK")
            if cur["sock"] is not None:
                for s in cur["sock"]:
                    chan = s.channel

                    def opserver(w, sock, chan=chan, r=r, cid=connid):
                        try:
                            items = rfc5804.decode(w)
                        except rfc5804.Malformed:
                            events.append(["write", cid, chan, "MALFORMED", ""])
                            return b'NO "malformed"\r\n'
                        out = react(r)
                        for it in items:
                            if it[0] == "cmd":
                                events.append(["write", cid, chan, it[1], ""])
                                events.append(["reply", cid, it[1], r])
                                if it[1] == "CAPABILITY" and r == "OK":
                                    out = b'"IMPLEMENTATION" "ref"\r\n"SASL" "GSSAPI EXTERNAL"\r\n"SIEVE" "fileinto"\r\nOK\r\n'
                                if it[1] == "LOGOUT" and r != "NO":
                                    sock.eof = True          # the server closes after its answer
                        return out
                    s.server = opserver
                    s.reset = (r == "reset")
            if r == "reset" and cur["sock"] is not None:
                # a fresh connection is on offer, should the client decide to open one: whatever it writes there is
                # logged under a new connection id (on which nobody ever authenticated)
                sid = 100 + len(events)
                used = []

                def spare_server(w, sock, sid=sid, used=used):
                    if not used:
                        used.append(1)
                        events.append(["open", sid])
                    try:
                        items = rfc5804.decode(w)
                    except rfc5804.Malformed:
                        events.append(["write", sid, "plain", "MALFORMED", ""])
                        return b'NO "malformed"\r\n'
                    for it in items:
                        if it[0] == "cmd":
                            events.append(["write", sid, "plain", it[1], ""])
                    return b'NO "not authenticated"\r\n'
                spare = M.FakeSocket(spare_server, channel="plain")
                spare.push(caps_bytes({"sasl": ["PLAIN"], "tls": False}))
                with M.Patched([spare]):
                    res = M.call(getattr(c, meth), *args)
            else:
                res = M.call(getattr(c, meth), *args)
        if res[0] == "ret":
            kind = "true" if res[1] is True else ("false" if res[1] is False else "other")
        elif res[0] == "error":
            kind = "error"
        else:
            kind = "raise:" + res[1].split(":")[0]
        events.append(["ret", kind])
    return events, payloads


def validate(traces):
    """TLC trace validation -> {id: (clause, index)}"""
    os.makedirs(BUILD, exist_ok=True)
    fd, path = tempfile.mkstemp(prefix="mstraces_", suffix=".json", dir=BUILD)
    with os.fdopen(fd, "w") as fp:
        json.dump([{"id": i, "ev": ev} for i, ev in enumerate(traces)], fp)
    got = {}
    try:
        res = run_tlc("sesstrace", "MSSessionTrace", "", "SPECIFICATION Spec\nINVARIANT Emit\nCHECK_DEADLOCK FALSE\n",
                      on_value=lambda v: got.__setitem__(v[0], (v[1], v[2])), workers=1,
                      env={"TRACE_FILE": path})
    finally:
        os.unlink(path)
    return got, res


# ---------------------------------------------------------- SASL payloads (C16)
def check_payload(p):
    """-> None or problem text"""
    items = p["items"]
    mech = p["mech"]
    login, password, authz = (p["login"].encode("utf-8"), p["password"].encode("utf-8"), p["authz"].encode("utf-8"))
    cmd = items[0]
    try:
        if mech == "PLAIN":
            if len(cmd[2]) != 2 or len(items) != 1:
                return "PLAIN: expected one command with mechanism and initial response"
            raw = base64.b64decode(cmd[2][1], validate=True)
            parts = raw.split(b"\0")
            if parts != [authz, login, password]:
                return "PLAIN: payload fields %r, want %r" % (parts, [authz, login, password])
        elif mech == "LOGIN":
            conts = [base64.b64decode(i[1], validate=True) for i in items[1:] if i[0] == "cont"]
            if len(cmd[2]) != 1 or conts != [login, password]:
                return "LOGIN: continuation data %r, want %r" % (conts, [login, password])
        elif mech == "OAUTHBEARER":
            raw = base64.b64decode(cmd[2][1], validate=True)
            # RFC 7628: gs2-header kvsep *kvpair kvsep ; gs2-header = "n," ["a=" saslname] ","
            if not raw.endswith(b"\x01\x01"):
                return "OAUTHBEARER: no terminating ^A^A"
            head, _, rest = raw.partition(b"\x01")
            if not head.startswith(b"n,") or not head.endswith(b","):
                return "OAUTHBEARER: bad gs2 header %r" % head
            a = head[2:-1]
            ident = None
            if a:
                if not a.startswith(b"a="):
                    return "OAUTHBEARER: bad authzid field %r" % a
                sn = a[2:]
                if b"," in sn or (b"=" in sn.replace(b"=2C", b"").replace(b"=3D", b"")):
                    return "OAUTHBEARER: authzid %r not saslname-escaped" % sn
                ident = sn.replace(b"=2C", b",").replace(b"=3D", b"=")
            kv = dict(x.split(b"=", 1) for x in rest[:-2].split(b"\x01") if x)
            if kv.get(b"auth") != b"Bearer " + password:
                return "OAUTHBEARER: auth=%r, want Bearer <token>" % kv.get(b"auth")
            if ident is not None and ident not in (login, authz):
                return "OAUTHBEARER: identity %r is neither the login nor the authorisation id" % ident
        elif mech == "DIGEST-MD5":
            return p.get("digest_problem")      # verified step by step by the scripted server (harness/digestmd5.py)
        else:
            return "unknown mechanism %r" % mech
    except Exception as e:   # noqa
        return "%s: undecodable payload (%s: %s)" % (mech, type(e).__name__, e)
    return None


# ----------------------------------------------------------- static half (C10)
def static_api_check():
    """Every public method of Client that can put a script-management verb on the wire must refuse on a client that
    never authenticated.  Candidates are found statically (source of the method, looking through decorator closures);
    a candidate is only reported after it was *seen* writing the verb on an unauthenticated client."""
    from . import ms_impl as M
    probs, notes = [], []
    script_verbs = ["HAVESPACE", "LISTSCRIPTS", "GETSCRIPT", "PUTSCRIPT", "CHECKSCRIPT", "DELETESCRIPT",
                    "RENAMESCRIPT", "SETACTIVE"]
    known = {"connect", "logout", "capability", "havespace", "listscripts", "getscript", "putscript", "deletescript",
             "renamescript", "setactive", "checkscript", "get_implementation", "get_sasl_mechanisms",
             "has_tls_support", "get_sieve_capabilities"}
    for name, fn in vars(M.ms.Client).items():
        if name.startswith("_") or not callable(fn):
            continue
        if name not in known:
            notes.append("public method %s is not covered by spec/MSSession.tla" % name)
        if name == "connect":
            continue
        # dynamic confirmation: call it on a fresh, never-authenticated client wired to a scripted socket
        try:
            sig = inspect.signature(fn)
        except (TypeError, ValueError):
            continue
        args = []
        for pn, prm in list(sig.parameters.items())[1:]:
            if prm.default is not inspect.Parameter.empty:
                continue
            ann = prm.annotation
            args.append(1 if ann is int or "size" in pn else "x")
        written = []

        def server(w, sock):
            written.append(w)
            return b'OK\r\n'
        c = M.ms.Client("h")
        c.sock = M.FakeSocket(server)
        caps = getattr(c, "_Client__capabilities", None)
        for with_version in (False, True):
            if isinstance(caps, dict):
                caps.clear()
                if with_version:
                    caps["VERSION"] = "1.0"
            M.call(getattr(c, name), *args)
            if c.sock.pending:
                c.sock._flush()
        wire = b"".join(written).upper()
        sent = [v for v in script_verbs if v.encode() in wire]
        if sent:
            probs.append("method %s wrote %s on a client that never authenticated" % (name, sent))
    return probs, notes


CONFIGS = {
    ("C10", "quick"): [
        {"maxcalls": 2, "prefs": [""], "tls": [True, False], "reactions": ["OK", "NO", "BYE", "silence", "garbage"],
         "ops": ["LISTSCRIPTS"],
         "pairs": [{"pre": {"sasl": ["LOGIN"], "tls": True}, "post": {"sasl": ["PLAIN"], "tls": False}},
                   {"pre": {"sasl": ["PLAIN"], "tls": False}, "post": {"sasl": ["PLAIN"], "tls": False}}]},
        {"maxcalls": 3, "prefs": [""], "tls": [True, False], "reactions": ["OK", "NO"],
         "ops": ["LISTSCRIPTS", "PUTSCRIPT"],
         "pairs": [{"pre": {"sasl": ["PLAIN", "LOGIN"], "tls": True}, "post": {"sasl": ["LOGIN"], "tls": False}}]},
        # the connection is reset by the peer under an operation (the write fails)
        {"maxcalls": 3, "prefs": [""], "tls": [False], "reactions": ["OK", "reset"], "ops": ["PUTSCRIPT", "LISTSCRIPTS"],
         "pairs": [{"pre": {"sasl": ["PLAIN"], "tls": False}, "post": {"sasl": ["PLAIN"], "tls": False}}]},
        # capability values sent as literals, before and after TLS
        {"maxcalls": 2, "prefs": [""], "tls": [True, False], "reactions": ["OK", "NO"], "ops": ["LISTSCRIPTS"],
         "pairs": [{"pre": {"sasl": ["LOGIN"], "tls": True, "enc": "l"}, "post": {"sasl": ["PLAIN"], "tls": False, "enc": "l"}}]},
        # LOGOUT / CAPABILITY between connects and operations (no authentication needed, LOGOUT closes)
        {"maxcalls": 3, "prefs": [""], "tls": [False], "reactions": ["OK", "NO"], "ops": ["LISTSCRIPTS", "LOGOUT", "CAPABILITY"],
         "pairs": [{"pre": {"sasl": ["PLAIN"], "tls": False}, "post": {"sasl": ["PLAIN"], "tls": False}}]},
        {"maxcalls": 2, "prefs": [""], "tls": [True], "reactions": ["OK", "NO", "BYE", "silence"], "ops": ["DELETESCRIPT", "LOGOUT", "CAPABILITY"],
         "pairs": [{"pre": {"sasl": ["LOGIN"], "tls": True}, "post": {"sasl": ["PLAIN"], "tls": False}}]},
        # names that merely *contain* an implemented mechanism's name, and lower-case spellings
        {"maxcalls": 1, "prefs": ["", "LOGIN", "PLAIN"], "tls": [True, False], "reactions": ["OK", "NO"], "ops": ["LISTSCRIPTS"],
         "pairs": [{"pre": {"sasl": ["PLAIN", "LOGIN"], "tls": True}, "post": {"sasl": ["PLAIN-CLIENTTOKEN", "XOAUTH2", "NMAS_LOGIN"], "tls": False}},
                   {"pre": {"sasl": ["X-LOGIN-TOKEN"], "tls": True}, "post": {"sasl": ["PLAIN"], "tls": False}},
                   {"pre": {"sasl": ["XPLAIN", "OAUTHBEARER2"], "tls": False}, "post": {"sasl": ["XPLAIN"], "tls": False}}]},
    ],
    ("C10", "thorough"): [
        # sizes: (#connect scenarios + #op scenarios) ** maxcalls histories; kept below ~1 M each
        {"maxcalls": 2, "prefs": ["", "LOGIN"], "tls": [True, False], "reactions": ["OK", "NO", "BYE", "silence", "garbage"],
         "ops": ["LISTSCRIPTS", "PUTSCRIPT"],
         "pairs": [{"pre": {"sasl": ["LOGIN"], "tls": True}, "post": {"sasl": ["PLAIN"], "tls": False}},
                   {"pre": {"sasl": ["PLAIN"], "tls": False}, "post": {"sasl": ["PLAIN"], "tls": False}},
                   {"pre": {"sasl": ABSENT, "tls": True}, "post": {"sasl": ["PLAIN", "LOGIN"], "tls": False}},
                   {"pre": {"sasl": ["PLAIN"], "tls": True}, "post": {"sasl": ABSENT, "tls": False}}]},
        {"maxcalls": 3, "prefs": [""], "tls": [True, False], "reactions": ["OK", "NO", "BYE"], "ops": ["LISTSCRIPTS", "PUTSCRIPT"],
         "pairs": [{"pre": {"sasl": ["PLAIN", "LOGIN"], "tls": True}, "post": {"sasl": ["LOGIN"], "tls": False}}]},
        {"maxcalls": 4, "prefs": [""], "tls": [False], "reactions": ["OK", "NO"], "ops": ["LISTSCRIPTS", "LOGOUT", "CAPABILITY"],
         "pairs": [{"pre": {"sasl": ["PLAIN"], "tls": False}, "post": {"sasl": ["PLAIN"], "tls": False}}]},
        {"maxcalls": 3, "prefs": [""], "tls": [True, False], "reactions": ["OK", "NO", "BYE", "silence"], "ops": ["DELETESCRIPT", "LOGOUT", "CAPABILITY"],
         "pairs": [{"pre": {"sasl": ["LOGIN"], "tls": True}, "post": {"sasl": ["PLAIN"], "tls": False}}]},
        {"maxcalls": 4, "prefs": [""], "tls": [True], "reactions": ["OK", "NO"], "ops": ["LISTSCRIPTS"],
         "pairs": [{"pre": {"sasl": ["PLAIN", "LOGIN"], "tls": True}, "post": {"sasl": ["LOGIN"], "tls": False}}]},
    ],
}


def c16_configs(tier, seed):
    import itertools
    mechs = ["DIGEST-MD5", "PLAIN", "LOGIN", "OAUTHBEARER", "GSSAPI", "XPLAIN"]
    lists = [ABSENT, []]
    for n in (1, 2, 3):
        for comb in itertools.permutations(mechs, n):
            lists.append(list(comb))
    rng = random.Random(seed + 16)
    if tier == "quick":
        keep = [l for l in lists if len(l) <= 1 or l == ABSENT]
        rest = [l for l in lists if len(l) > 1 and l != ABSENT]
        rng.shuffle(rest)
        lists = keep + rest[:60]
    pairs = [{"pre": {"sasl": l, "tls": False}, "post": {"sasl": l, "tls": False}} for l in lists]
    pairs += [{"pre": {"sasl": l, "tls": False, "enc": "l"}, "post": {"sasl": l, "tls": False, "enc": "l"}}
              for i, l in enumerate(lists) if l != ABSENT and (tier == "thorough" or i % 3 == 0)]
    prefs = ["", "PLAIN", "LOGIN", "OAUTHBEARER", "DIGEST-MD5", "XOAUTH", "plain"]
    return [{"maxcalls": 1, "prefs": prefs, "tls": [False], "reactions": ["OK", "NO", "BYE"], "ops": ["LISTSCRIPTS"],
             "pairs": pairs}]


CREDS = [("user", "pass", ""), ("user", "pass", "admin"), ("üser@exämple.org", "pässwörd☃", ""),
         ("a,b=c", 'p"q r', "z,=y"), ("u", "", "u2"), ("user name", "p=,\\", ""), ("日本", "tok.en-123_~+/=", "authz ü"),
         ('he said "hi"\\', "p:w", 'a"z\\'), ("u:v", "ÿþ latin1 only", "")]


def run(prop, tier, seed):
    t0 = time.time()
    devs = findings.open_devs("MSSession")
    bydev = findings.by_dev()
    cfgs = CONFIGS[(prop, tier)] if prop == "C10" else c16_configs(tier, seed)
    machinery, states, trans = [], 0, 0
    tasks = []
    rng = random.Random(seed + 5)
    for cfg in cfgs:
        hs, res = tlc_histories(cfg)
        if res["error"] or res["violated"]:
            machinery.append("TLC MSSession: %s %s" % (res["error"], res["violated"]))
        states += res["distinct"]
        trans += res["states"]
        for h in hs:
            creds = CREDS[rng.randrange(len(CREDS))] if prop == "C16" else CREDS[0]
            if prop == "C16":
                for cr in (CREDS if tier == "thorough" else [creds, CREDS[3]]):
                    tasks.append((h, cfg["pairs"], cr))
            else:
                tasks.append((h, cfg["pairs"], creds))
    traces, payloads = [], []
    with mp.Pool(12) as pool:
        for ev, pl in pool.imap(replay, tasks, chunksize=50):
            traces.append(ev)
            payloads.append(pl)
    got, vres = validate(traces)
    if vres["error"] or vres["violated"]:
        machinery.append("TLC MSSessionTrace: %s %s" % (vres["error"], vres["violated"]))
    if len(got) != len(traces):
        machinery.append("MSSessionTrace judged %d of %d traces" % (len(got), len(traces)))
    states += vres["distinct"]
    trans += vres["states"]
    clauses = C10_CLAUSES if prop == "C10" else C16_CLAUSES
    viols, known = [], {}

    def classify(rec, clause):
        # open deviations of the session layer are identified by the violated clause + exception class
        for d in devs:
            f = bydev[d]
            if clause in f.get("clauses", []) and (not f.get("when") or f["when"] in json.dumps(rec["trace"])):
                known.setdefault(d, []).append(rec)
                return
        viols.append(rec)
    for i, ev in enumerate(traces):
        clause, at = got.get(i, ("", 0))
        if clause and clause in clauses:
            classify({"trace": ev, "clause": clause, "at": at, "script": tasks[i][0]}, clause)
        resets = any(x[0] == "srv" and x[2] == "reset" for x in tasks[i][0])
        for e in ev:
            if e[0] == "ret" and e[1].startswith("raise:ConnectionResetError") and resets:
                continue        # the operating system's own error for a reset connection may surface as it is
            if e[0] == "ret" and e[1].startswith("raise:"):
                classify({"trace": ev, "clause": "Raises", "at": 0, "script": tasks[i][0], "exc": e[1]}, "Raises:" + e[1][6:])
        if prop == "C16":
            for p in payloads[i]:
                prob = check_payload(p)
                if prob:
                    classify({"trace": ev, "clause": "Payload", "at": 0, "script": tasks[i][0], "problem": prob,
                              "creds": [p["login"], p["password"], p["authz"]]}, "Payload:" + p["mech"])
    if prop == "C10":
        probs, notes = static_api_check()
        for pr in probs:
            viols.append({"trace": [], "clause": "StaticGuard", "at": 0, "script": [], "problem": pr})
        for n in notes:
            print("NOTE " + n)
    rc = 0
    for m in machinery:
        print("MACHINERY-FAILURE " + m)
        rc = 2
    for d, rs in sorted(known.items()):
        f = bydev.get(d, {})
        print("KNOWN-FINDING: property=%s %s (%s): %s [%d cases]" % (prop, f.get("id", "?"), d, f.get("what", ""), len(rs)))
    os.makedirs(os.path.join(VERIF, "build", "replay"), exist_ok=True)
    seen = set()
    k = 0
    for r in viols:
        key = (r["clause"], r.get("problem", "")[:30], r.get("exc", ""))
        if key in seen or k >= 12:
            continue
        seen.add(key)
        path = os.path.join(VERIF, "build", "replay", "%s_%d.json" % (prop, k))
        with open(path, "w") as fp:
            json.dump({"property": prop, "case": r}, fp, indent=1, default=str)
        print("VIOLATION property=%s replay=%s  # clause %s at event %s %s | %s" % (
            prop, path, r["clause"], r["at"], r.get("problem", r.get("exc", "")), json.dumps(r["trace"])[:260]))
        k += 1
    if viols and rc == 0:
        rc = 1
    cov = {"states": states, "transitions": trans, "traces_validated_against_impl": len(traces),
           "samples": [{"script_from_TLC": tasks[i][0], "observed_events": traces[i], "verdict": got.get(i)} for i in (0, len(traces) // 2)] if traces else [],
           "exhaustive": True, "evaluations": len(traces), "distinct_nontrivial": len(set(json.dumps(t) for t in traces)),
           "rule": "every call history up to MaxCalls x every server reaction at every step (TLC, exhaustive per configuration); "
                   "each replayed against scripted plain/TLS sockets; the observed event trace validated by TLC (MSSessionTrace)",
           "configurations": [{k: (v if k != "pairs" else len(v)) for k, v in c.items()} for c in cfgs],
           "clauses": list(clauses), "known_finding_cases": {d: len(v) for d, v in known.items()},
           "violating_cases": len(viols),
           "trusted_base": ["harness/ms_impl.py scripted sockets and patched ssl context", "harness/rfc5804.py strict command decoder",
                            "SASL payload decoders in harness/c_ms_session.py (base64, RFC 4616, RFC 7628 field splitting)"]}
    evidence.write(prop, tier, seed, t0, cov, len(viols),
                   ["TLS itself is an atomic handshake(ok|fail) step with a patched context",
                    "histories longer than MaxCalls only by the thorough configurations"])
    return rc
