#!/bin/sh
# usage: harness/run_all.sh quick|thorough   runs every check in turn, prints one summary line each
T="${1:-quick}"
mkdir -p build
for c in C01 C02 C03 C04 C05 C06 C07 C08 C09 C10 C11 C12 C13 C14 C15 C16 C17 C18 C19 C20; do
  s=$(date +%s)
  ./check $c --tier $T > build/run_$c.out 2>&1; rc=$?
  e=$(date +%s)
  echo "$c tier=$T rc=$rc wall=$((e-s))s viol=$(grep -c '^VIOLATION' build/run_$c.out) known=$(grep -c '^KNOWN' build/run_$c.out) mach=$(grep -c '^MACHINERY' build/run_$c.out)"
done
