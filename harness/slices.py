"""Vocabulary slices for the enumeration mode of SieveGrammar (DESIGN 4/C01)."""
PUNCT = [("lb", ""), ("rb", ""), ("lp", ""), ("rp", ""), ("lc", ""), ("rc", ""), ("semi", ""), ("comma", "")]


def ids(*names):
    return [("id", n) for n in names]


def tags(*names):
    return [("tag", n) for n in names]


def strs(*vals):
    return [("str", v) for v in vals]


def req(*exts):
    out = [("id", "require"), ("lb", "")]
    for i, e in enumerate(exts):
        if i:
            out.append(("comma", ""))
        out.append(("str", e))
    return out + [("rb", ""), ("semi", "")]


SLICES = {}


def add(name, vocab, prelude=(), quick=5, thorough=7, devs=None, punct=None):
    SLICES[name] = {"name": name, "vocab": list(vocab) + (PUNCT if punct is None else punct), "prelude": list(prelude),
                    "quick": quick, "thorough": thorough}


add("structure",
    ids("if", "elsif", "else", "stop", "keep", "discard", "true", "false", "not", "anyof", "allof", "bogus")
    + strs("a") + [("num", "1")] + tags(":bogus"), quick=5, thorough=9)
add("tests",
    ids("if", "header", "address", "exists", "size", "not", "stop")
    + tags(":comparator", ":is", ":contains", ":count", ":regex", ":localpart", ":over", ":bogus")
    + strs("a", "i;octet", "gt", "zz") + [("num", "10K")],
    prelude=req("relational", "regex"), quick=6, thorough=7)
add("actions",
    ids("fileinto", "redirect", "reject", "keep", "stop", "if", "true")
    + tags(":copy", ":create", ":flags", ":bogus") + strs("a", "b") + [("ml", "m")] + [("num", "1")],
    prelude=req("fileinto", "reject", "copy", "mailbox", "imap4flags"), quick=5, thorough=7)
add("flags",
    ids("setflag", "addflag", "removeflag", "if", "hasflag", "anyof", "stop")
    + tags(":is", ":comparator", ":count") + strs("a", "b", "gt", "i;octet") + [("num", "1")],
    prelude=req("imap4flags", "relational"), quick=5, thorough=7)
add("vacation",
    ids("vacation", "stop")
    + tags(":subject", ":days", ":seconds", ":from", ":addresses", ":handle", ":mime")
    + strs("a", "b") + [("ml", "m")] + [("num", "7")],
    prelude=req("vacation", "vacation-seconds"), quick=5, thorough=7)
add("dateetc",
    ids("if", "body", "date", "currentdate", "set", "stop")
    + tags(":zone", ":originalzone", ":is", ":value", ":raw", ":content", ":text", ":comparator")
    + strs("a", "b", "ge", "i;ascii-casemap") + [("num", "1")],
    prelude=req("body", "date", "variables", "relational"), quick=6, thorough=7)
add("gating",
    ids("require", "if", "fileinto", "reject", "envelope", "body", "vacation", "set", "currentdate",
        "setflag", "hasflag", "header", "redirect", "keep")
    + tags(":copy", ":create", ":flags", ":seconds", ":count", ":regex", ":is")
    + strs("fileinto", "reject", "envelope", "body", "vacation", "vacation-seconds", "variables",
           "date", "imap4flags", "copy", "mailbox", "relational", "regex", "nonesuch", "gt", "FileInto", "REGEX"),
    quick=5, thorough=6)
add("tags2",
    ids("if", "header", "address", "envelope", "size", "stop")
    + tags(":matches", ":value", ":domain", ":all", ":under", ":comparator") + strs("a", "ge", "i;ascii-casemap") + [("num", "2M")],
    prelude=req("relational", "envelope"), quick=5, thorough=7)
add("nesting", ids("if", "not", "anyof", "true", "keep", "else"),
    punct=[("lp", ""), ("rp", ""), ("lc", ""), ("rc", ""), ("semi", ""), ("comma", "")], quick=11, thorough=13)
add("lists",
    ids("require", "if", "exists", "header", "redirect", "stop")
    + strs("a", "b", "@innerq") + [("ml", "m")] + tags(":is"),
    quick=5, thorough=8)

# the same typed vocabularies again, but starting *inside* a nested context (the prelude is not counted in MaxLen):
# behaviour that depends on the enclosing constructs shows up without needing a dozen enumerated tokens
T = lambda *toks: [tuple(t) for t in toks]
add("tests_nested", SLICES["tests"]["vocab"][:-len(PUNCT)],
    prelude=req("relational", "regex") + T(("id", "if"), ("id", "allof"), ("lp", ""), ("id", "true"), ("comma", ""), ("id", "not")),
    quick=5, thorough=6)
add("flags_nested", SLICES["flags"]["vocab"][:-len(PUNCT)],
    prelude=req("imap4flags", "relational") + T(("id", "if"), ("id", "anyof"), ("lp", ""), ("id", "not"), ("id", "not")),
    quick=5, thorough=6)
add("actions_nested", SLICES["actions"]["vocab"][:-len(PUNCT)],
    prelude=req("fileinto", "reject", "copy", "mailbox", "imap4flags")
    + T(("id", "if"), ("id", "true"), ("lc", ""), ("id", "if"), ("id", "false"), ("lc", ""), ("rc", ""), ("id", "else"), ("lc", "")),
    quick=4, thorough=6)
add("dateetc_nested", SLICES["dateetc"]["vocab"][:-len(PUNCT)],
    prelude=req("body", "date", "variables", "relational")
    + T(("id", "if"), ("id", "true"), ("lc", ""), ("rc", ""), ("id", "elsif"), ("id", "anyof"), ("lp", "")),
    quick=5, thorough=6)

ALL_EXTS = ["fileinto", "reject", "envelope", "body", "vacation", "vacation-seconds", "variables",
            "date", "imap4flags", "copy", "mailbox", "relational", "regex"]
SIM = {"name": "sim", "prelude": req(*ALL_EXTS),
       "vocab": ids("if", "elsif", "else", "stop", "keep", "discard", "redirect", "fileinto", "reject",
                    "setflag", "addflag", "removeflag", "vacation", "set", "true", "false", "not", "anyof",
                    "allof", "exists", "size", "header", "address", "envelope", "body", "hasflag", "date",
                    "currentdate", "require")
       + tags(":is", ":contains", ":matches", ":count", ":value", ":regex", ":comparator", ":localpart", ":domain",
              ":all", ":over", ":under", ":copy", ":create", ":flags", ":subject", ":days", ":seconds", ":from",
              ":addresses", ":handle", ":mime", ":zone", ":originalzone", ":raw", ":content", ":text")
       + strs("a", "b", "gt", "eq", "i;octet", "i;ascii-casemap", "@innerq", "@nonascii", "@comma", "@brackets", "fileinto")
       + [("ml", "m"), ("ml", "@dotline"), ("num", "1"), ("num", "20K")] + PUNCT}

SIM_NEST = {"name": "simnest", "prelude": req("fileinto", "envelope", "imap4flags"),
            "vocab": ids("if", "elsif", "else", "stop", "keep", "fileinto", "true", "false", "not", "anyof",
                         "allof", "exists", "header", "size", "hasflag", "envelope")
            + tags(":is", ":over", ":domain", ":comparator") + strs("a", "b", "i;octet") + [("num", "1")] + PUNCT}
SIMS = {"sim": SIM, "simnest": SIM_NEST}
