"""Run the repository's own parser/factory tests with Parser.parse wrapped, recording every
script the suite feeds to the parser (CCF lesson: the existing tests already walk into
interesting states; their assertions are just weak).  Usage: python -m harness.record_suite OUT"""
import base64
import json
import os
import sys

REPO = os.environ.get("VERIF_REPO", "/repo")
sys.path.insert(0, REPO)
out = sys.argv[1]
from sievelib import parser as sparser  # noqa

orig = sparser.Parser.parse
log = []


def wrapped(self, text):
    r = orig(self, text)
    b = text.encode("utf-8") if isinstance(text, str) else bytes(text)
    log.append({"test": os.environ.get("PYTEST_CURRENT_TEST", ""), "text": base64.b64encode(b).decode(), "result": r})
    return r


sparser.Parser.parse = wrapped
import pytest  # noqa
os.chdir(REPO)
rc = pytest.main(["-q", "-p", "no:cacheprovider", "-x", "sievelib/tests/test_parser.py", "sievelib/tests/test_factory.py"])
with open(out, "w") as fp:
    json.dump({"rc": int(rc), "log": log}, fp)
