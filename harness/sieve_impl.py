"""Drive the real sievelib parser and project what it did onto the specification's state.

Imports sievelib from VERIF_REPO (default /repo) -- always the current working tree.
No source hooks: the per-token view comes from replacing the public attribute
`parser.lexer` with a subclass whose scan() counts the tokens it hands out, which also
gives deterministic hang detection (a BaseException after 4*len+16 yields).
"""
import contextlib
import io
import os
import signal
import sys
import threading
import zlib

REPO = os.environ.get("VERIF_REPO", "/repo")
if REPO not in sys.path:
    sys.path.insert(0, REPO)

from sievelib import parser as sparser      # noqa: E402
from sievelib import commands as scommands  # noqa: E402

assert os.path.abspath(sparser.__file__).startswith(os.path.abspath(REPO)), sparser.__file__


class Hang(BaseException):
    pass


class Slow(BaseException):
    pass


WALL_LIMIT = float(os.environ.get("VERIF_PARSE_WALL", "6"))
_slow_events = [0]       # after a few watchdog hits in this process the limit drops: the violation is already established


def _alarm(signum, frame):
    raise Slow()


class LexProxy:
    """Stands in for a parser's public `lexer` attribute *around the lexer object the parser created* (so that whatever
    that object shares with other parsers stays shared): counts the tokens handed out (deterministic hang detection)
    and can let an intruder run between two tokens."""

    def __init__(self, inner):
        object.__setattr__(self, "_inner", inner)
        object.__setattr__(self, "yields", 0)
        object.__setattr__(self, "intrude_at", 0)

    def __getattr__(self, name):
        return getattr(object.__getattribute__(self, "_inner"), name)

    def __setattr__(self, name, value):
        if name in ("yields", "intrude_at"):
            object.__setattr__(self, name, value)
        else:
            setattr(object.__getattribute__(self, "_inner"), name, value)

    def scan(self, text):
        self.yields = 0
        cap = 4 * len(text) + 16
        for tok in object.__getattribute__(self, "_inner").scan(text):
            self.yields += 1
            if self.yields > cap:
                raise Hang()
            if self.yields == self.intrude_at:
                # another Parser object parses a whole (extension-free) script while this one is between two tokens
                sparser.Parser().parse(b"if true { keep; }")
            yield tok


def new_parser():
    p = sparser.Parser()
    p.lexer = LexProxy(p.lexer)
    return p


def unquote(raw):
    """raw token text of a quoted string -> content"""
    body = raw[1:-1]
    out = []
    i = 0
    while i < len(body):
        c = body[i]
        if c == "\\" and i + 1 < len(body):
            out.append(body[i + 1])
            i += 2
        else:
            out.append(c)
            i += 1
    return "".join(out)


def unmultiline(raw):
    """raw token text `text:...\n.` -> content (dot-unstuffed, lines joined by \n)"""
    # first line: "text:" [ws] [#comment]
    nl = raw.find("\n")
    body = raw[nl + 1:] if nl >= 0 else ""
    lines = body.split("\n")
    lines = [ln[:-1] if ln.endswith("\r") else ln for ln in lines]
    if lines and lines[-1] == ".":
        lines = lines[:-1]
    lines = [ln[1:] if ln.startswith(".") else ln for ln in lines]
    return "\n".join(lines)


def proj_scalar(raw):
    if isinstance(raw, str):
        if raw.startswith('"'):
            return ["s", unquote(raw)]
        if raw.startswith("text:"):
            return ["m", unmultiline(raw)]
        return ["n", raw]
    return ["?", repr(raw)]


def proj_value(v):
    if isinstance(v, list):
        return ["l", [proj_scalar(x) for x in v]]
    return proj_scalar(v)


def project(cmd):
    """Command -> [name, {tag: val|None}, [positionals], [tests], [children], hasblock]"""
    tags = {}
    pos = []
    tests = []
    defs = {a["name"]: a for a in cmd.args_definition}
    for name, value in cmd.arguments.items():
        d = defs.get(name, {})
        if isinstance(value, scommands.Command):
            tests.append(project(value))
        elif isinstance(value, list) and value and all(isinstance(x, scommands.Command) for x in value):
            tests.extend(project(x) for x in value)
        elif "tag" in d.get("type", []) and isinstance(value, str) and value.startswith(":"):
            tags[value.lower()] = proj_value(cmd.extra_arguments[name]) if name in cmd.extra_arguments else None
        else:
            pos.append(proj_value(value))
    children = [project(c) for c in cmd.children]
    return [cmd.name, tags, pos, tests, children]


def guarded(fn, *args):
    """call fn under the wall-clock watchdog -> ("ret", value) | ("raise", name, text) | ("hang",)"""
    timer = threading.current_thread() is threading.main_thread()
    if timer:
        old = signal.signal(signal.SIGALRM, _alarm)
        signal.setitimer(signal.ITIMER_REAL, WALL_LIMIT if _slow_events[0] < 3 else 0.3)
    try:
        try:
            return ("ret", fn(*args))
        finally:
            if timer:
                signal.setitimer(signal.ITIMER_REAL, 0)
                signal.signal(signal.SIGALRM, old)
    except (Hang, Slow):
        _slow_events[0] += 1
        return ("hang",)
    except BaseException as e:  # noqa
        return ("raise", type(e).__name__, str(e)[:60])


def roundtrip(p, tree):
    """C04 on the implementation alone: serialise p.result, re-parse, compare, serialise again"""
    rt = {}
    try:
        text = tosieve_text(p.result)
    except Exception as e:  # noqa
        return {"problem": "tosieve raised %s: %s" % (type(e).__name__, str(e)[:80])}
    rt["text"] = text
    p2 = new_parser()
    o2 = run_parse(p2, text.encode("utf-8"))
    if o2["verdict"] is not True:
        rt["problem"] = "serialised script not accepted again: %s %s" % (o2["cls"], o2.get("error") or o2.get("exc"))
        return rt
    if o2["tree"] != tree:
        rt["problem"] = "serialised script parses to a different tree"
        return rt
    try:
        text2 = tosieve_text(p2.result)
    except Exception as e:  # noqa
        rt["problem"] = "second tosieve raised %s" % type(e).__name__
        return rt
    if text2 != text:
        rt["problem"] = "serialisation is not a fixed point"
    return rt


def run_parse(p, data, rt=False):
    """-> outcome dict: cls in {ret, raise, hang}; verdict; error; error_pos; yields; tree"""
    out = {"cls": "ret", "verdict": None, "error": None, "error_pos": None, "yields": 0, "tree": None}
    p.error = None
    p.error_pos = None
    timer = threading.current_thread() is threading.main_thread()
    if timer:
        # a regular expression that backtracks exponentially never reaches the token counter:
        # wall-clock watchdog (normal parses of these inputs take well under a millisecond)
        old = signal.signal(signal.SIGALRM, _alarm)
        signal.setitimer(signal.ITIMER_REAL, WALL_LIMIT if _slow_events[0] < 3 else 0.3)
    # configuration: every fourth input is parsed with the parser's debug flag on (what it prints is discarded);
    # nothing that is judged may depend on it
    h = zlib.crc32(data if isinstance(data, bytes) else data.encode("utf-8"))
    p.debug = h % 4 == 0
    # every fifth script that requires nothing is parsed with an intruder: between two of its tokens another Parser
    # object parses a script (no `require' on either side: the documented process-wide extension list stays empty)
    if isinstance(p.lexer, LexProxy):
        low = data.lower() if isinstance(data, bytes) else data.lower().encode("utf-8")
        p.lexer.intrude_at = 1 + (h // 4) % 7 if ((h // 4) % 5 == 0 and b"require" not in low) else 0
    try:
        try:
            if p.debug:
                with contextlib.redirect_stdout(io.StringIO()):
                    r = p.parse(data)
            else:
                r = p.parse(data)
        finally:
            if timer:
                signal.setitimer(signal.ITIMER_REAL, 0)
                signal.signal(signal.SIGALRM, old)
    except Hang:
        out["cls"] = "hang"
        out["yields"] = getattr(p.lexer, "yields", -1)
        return out
    except Slow:
        _slow_events[0] += 1
        out["cls"] = "hang"
        out["exc"] = "no result after %.0f s wall-clock for %d bytes" % (WALL_LIMIT, len(data))
        return out
    except RecursionError:
        out["cls"] = "raise"
        out["exc"] = "RecursionError"
        return out
    except Exception as e:   # noqa
        out["cls"] = "raise"
        out["exc"] = type(e).__name__ + ": " + str(e)[:80]
        out["yields"] = getattr(p.lexer, "yields", -1)
        return out
    out["yields"] = getattr(p.lexer, "yields", -1)
    out["verdict"] = r
    if r is True:
        try:
            out["tree"] = [project(c) for c in p.result]
        except Exception as e:  # noqa
            out["tree"] = ["!projection failed", type(e).__name__ + ": " + str(e)[:80]]
        if rt:
            out["rt"] = roundtrip(p, out["tree"])
    elif r is False:
        out["error"] = p.error
        out["error_pos"] = p.error_pos
    return out


def named_args(result, cname):
    """for every node called cname: {argument name: projected value} ([tag, parameter] for tags)"""
    out = []
    for top in result:
        for node in top.walk():
            if node.name != cname:
                continue
            m = {}
            for name, value in node.arguments.items():
                if isinstance(value, str) and value.startswith(":"):
                    m[name] = [value.lower(), proj_value(node.extra_arguments[name]) if name in node.extra_arguments else None]
                else:
                    m[name] = proj_value(value)
            out.append(m)
    return out


def tosieve_text(result):
    buf = io.StringIO()
    for c in result:
        c.tosieve(target=buf)
    return buf.getvalue()
