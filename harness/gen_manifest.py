"""Regenerates MANIFEST.json from the table below (single source of truth for the interface)."""
import json
import os

VERIF = os.path.dirname(os.path.dirname(os.path.abspath(__file__)))

CHECKS = {
    "C01": ("spec/SieveGrammar.tla reference recogniser; SieveEnum exhaustive per vocabulary slice (TLC) replayed into Parser.parse under layouts/suffixes; TLC judges suite + seeded scripts (SieveTrace)",
            "verdict of Parser.parse = verdict of the TLA+ reference recogniser for every token sequence TLC enumerates within the bound and for every recorded script; design-level invariants (determinism, progress, gating) model-checked",
            "bounds per slice in evidence; renderer/lexref/projection trusted; dontcare zones DESIGN 2.4", "4/C01"),
    "C02": ("same behaviours as C01 + byte-level mutants: outcome class, lexer-step count, shape of error/error_pos checked on every execution",
            "every replayed execution must return True/False within a linear step bound and with well-formed error/error_pos; TLC proves the reference takes one step per token (Progress)",
            "hang detection by deterministic step cap in a lexer proxy; wall-clock not measured", "4/C02"),
    "C03": ("tree built by the TLA+ reference (RFC 5228 8.2 syntactic tree) compared with the projection of Parser.result for every accepted behaviour",
            "the command tree of every accepted enumerated/recorded script equals the tree TLC computed",
            "projection of Command objects (harness/sieve_impl.py) trusted; repeated-tag inputs skipped", "4/C03"),
    "C07": ("GatedInv model-checked on every reachable state; gating slice enumerates each extension-bound construct with and without its require; impl verdict and message compared",
            "no accepted behaviour uses an extension the reference has not seen required; removing a needed require yields `extension 'e' not loaded'",
            "frozen table spec/SieveTable.tla transcribed from the RFCs", "4/C07"),
    "C18": ("index of the first non-viable token from the reference (bad, why) rendered to byte positions under position-stressing layouts and suffixes, compared with error/error_pos",
            "exact line/column/length for the token-local error classes, never-before and suffix-independence for the others, on every rejected enumerated behaviour",
            "renderer's byte spans trusted", "4/C18"),
    "C05": ("spec/MSReader.tla: impl-shaped reply reader with the network as environment (Deliver(k)); TLC explores every delivery schedule of every corpus reply (SegmentationFree, LiteralExact, NeverStuck, liveness Terminates); the wire forms are replayed into Client under every single cut, double cuts, recv caps and seeded splits, compared with the unsegmented run and two sentinel operations",
            "for every corpus reply x operation x schedule the client's result, errcode/errmsg, leftover bytes and the two following operations equal those of the unsegmented delivery; the reference reader is model-checked segmentation-free on the same corpus",
            "finite corpus generated from the RFC 5804 response grammar (harness/ms_corpus.py); scripted socket trusted", "4/C05"),
    "C09": ("spec/MSClient.tla: admissible outcomes (reference + named deviations) per abstract reply, printed by TLC; every operation x every status reply replayed (fresh connection and after earlier NO/OK replies)",
            "result / exception / errcode / errmsg of every operation equal the reference outcome of the abstract reply, or exactly the outcome of a listed open deviation",
            "finite corpus; errcode compared on the code atom", "4/C09"),
    "C17": ("spec/MSClient.tla RefList/GetOutcomes over look-alike name and body pools in every encoding; replayed unsegmented and under a seeded segmentation; DataNeverProtocol model-checked on the reader",
            "listscripts / getscript values equal the abstract reply's names, active flag and body lines (line-ending style and trailing blank lines ignored)",
            "finite pools of names/bodies biased to protocol look-alikes and exotic line separators", "4/C17"),
    "C08": ("spec/MSWire.tla Encode/Decode: RoundTrip and SelfDelimiting model-checked for every value over a hostile alphabet; the harness's strict decoder is checked against the specification's encoder on every value, then applied to what Client writes for every operation x argument position",
            "for every enumerated value and operation the bytes written decode (strict RFC 5804 server-side parser) to exactly one command of the intended verb with the caller's arguments, or nothing is written and Error is raised",
            "values longer than MaxLen symbols only by the seeded generator; decoder trusted after cross-check with the spec", "4/C08"),
    "C10": ("spec/MSSession.tla: connect/STARTTLS/AUTHENTICATE life-cycle, one action per step, every server reaction; invariants model-checked; every history replayed with scripted plain/TLS sockets; the observed raw event trace validated by TLC (spec/MSSessionTrace.tla: NoScriptCmdBeforeAuth, NoCredsBeforeTLS, MechFromPostTLSCaps) plus a static decorator check",
            "on every replayed history (all call histories up to MaxCalls x all reactions) no script command is written on a connection whose AUTHENTICATE was not answered OK, no AUTHENTICATE before a successful handshake when STARTTLS was requested, mechanism from the post-TLS capabilities",
            "TLS is an atomic handshake step with a patched context; bounds in evidence", "4/C10"),
    "C14": ("spec/MSRename.tla reference emulated rename with one fault at any step: RenameNoLoss/NoOverwrite/SuccessPost model-checked in every intermediate state for every initial store; each scenario replayed; the observed command/reply trace is re-executed by TLC with the specification's server semantics (spec/MSStoreTrace.tla) and judged",
            "for every initial store x (old,new) x fault step x fault kind the store after the real client's emulated rename satisfies the C14 predicates, as decided by TLC on the recorded trace",
            "exhaustive over 2 (quick) / 3 (thorough) names and 2 bodies; scripted server checked against MSStore!Srv", "4/C14"),
    "C15": ("spec/MSSessGen.tla generates sessions (exhaustive short, tlc -simulate long) with server choices; replayed against a scripted server under seeded segmentation; spec/MSStoreTrace.tla re-executes the observed commands and judges every result (ResultMirrorsStatus, ViewMatchesStore, OutOfStep, MalformedCommand)",
            "every call's result equals the specification server's state at that moment and answers its own command, on every generated session",
            "sampling beyond 2 operations; name/body pools without protocol look-alikes (C17 covers those)", "4/C15"),
    "C16": ("spec/MSCommon.tla ChooseMech + spec/MSSessionTrace.tla MechRight / ConnectTrue clauses on the observed trace for all ordered mechanism lists x preferences x verdicts; AUTHENTICATE payloads decoded per mechanism (RFC 4616, LOGIN, RFC 7628)",
            "the mechanism written equals ChooseMech(announced, preferred), nothing is written when none qualifies, the payload carries exactly the caller's credentials, connect is True iff the server said OK",
            "payload decoders and the RFC 2831 server side (harness/digestmd5.py) trusted; DIGEST-MD5 is verified step by step (challenge, response digest recomputed from the caller's credentials, rspauth, final OK)", "4/C16"),
    "C06": ("spec/FilterDefs.tla: token skeleton and extension set of every documented definition form; SkeletonValid and RequireExact model-checked against SieveGrammar; each definition built through the API with concrete values per value class, real output lexed independently and compared token by token with the skeleton, require list checked, real parser asked, observed tokens judged by TLC (SieveTrace)",
            "for every definition of the space the generated script's tokens equal the skeleton (values only as string contents), the require names every used extension, parser and reference recogniser accept it strictly, also when the filter is disabled",
            "value classes stand for all values of their kind; definitions with value starting with a quote excluded (property)", "4/C06"),
    "C11": ("spec/FiltersSet.tla: Reload is the identity on the list state; every operation sequence with reload steps replayed (reload = real render/parse/from_parser_result) under four naming/marker configurations; projections and re-rendered text compared",
            "names, order, enabled status, descriptions and requires equal before and after reload on every enumerated history; rendering the reloaded set is a fixed point",
            "two fixed definitions; four naming configurations (plain, look-alike markers, custom prefixes, regex metacharacters)", "4/C11"),
    "C12": ("spec/FiltersSet.tla reference list model, one action per operation with its return value; UniqueNames and StepProps model-checked; every operation sequence up to MaxOps (TLC) and simulated walks replayed step by step on a real FiltersSet",
            "return value and projection (name, enabled, is_filter_disabled, number of if-false wrappers, definition, getfilter identity) equal the list model after every step of every enumerated sequence",
            "bounds in evidence; projection trusted", "4/C12"),
    "C13": ("spec/SieveProc.tla: process-global loaded-extension list and per-parser leftovers as explicit state; HistoryFree model-checked (and shown non-vacuous with each deviation enabled); every history replayed in a forked pristine child, each step compared with the pristine single call",
            "for every enumerated history each call's full outcome equals its outcome in a pristine process",
            "finite script pool and factory operations", "4/C13"),
    "C19": ("spec/FilterDefs.tla definition space restricted to the quantifier's forms; read-back compared with the supplied definition on the original set, disabled, reloaded, and when given to updatefilter on a disabled renamed filter; open deviations predicted exactly (comma splitting, address conditions)",
            "get_filter_conditions/actions/matchtype return the supplied definition in every stage, or exactly what a listed open deviation predicts",
            "tuple shapes of the read-back API transcribed from docstrings/tests", "4/C19"),
    "C04": ("SieveGrammar!Ser / RoundTripOf model-checked on every accepted regular behaviour (canonical serialisation re-reads to the same tree and is a fixed point); on the code: tosieve of every accepted enumerated/generated script is re-parsed, trees compared, second serialisation compared; the serialised outputs are themselves judged by TLC (SieveTrace); value classes aimed at quoting edge cases in every string position",
            "every accepted regular script of the enumerated/generated domain serialises to text that the parser and the reference recogniser accept with the same tree, and serialising again reproduces the text",
            "irregular (dontcare) inputs not judged; value classes in harness/render.py", "4/C04"),
    "C20": ("SieveGrammar instantiated with an extended table (constant Custom): one generated argument definition per run, every use up to the bound enumerated by TLC (SieveEnum), class built in README format and registered with add_commands (after an earlier registration under the same name) in fresh worker processes; verdict, tree, gating, round trip and named-argument recording compared",
            "for every generated definition and every enumerated use: accepted exactly when the definition allows it, arguments recorded under the defined names, extension gated, output re-parses to the same tree; an unregistered name stays unknown",
            "definitions sampled (seeded) from the documented shape; uses exhaustive within the bound", "4/C20"),
}

NOT_YET = {}


def main():
    props = [json.loads(l) for l in open(os.path.join(VERIF, "properties.jsonl"))]
    checks = []
    na = []
    for p in props:
        i = p["id"]
        if i in CHECKS:
            tech, text, note, ref = CHECKS[i]
            checks.append({
                "property_id": i,
                "quick_cmd": "./check %s --tier quick" % i,
                "thorough_cmd": "./check %s --tier thorough" % i,
                "evidence_file": "/verif/evidence/%s.json" % i,
                "replay_cmd_template": "./check %s --replay {path}" % i,
                "engine": "tlc+replay",
                "level_claimed": {"category": "model_checking", "text": text, "design_ref": "DESIGN.md " + ref},
                "level_note": note,
                "technique": "TLA+ spec model-checked with TLC; conformance by replaying TLC behaviours into the code and by TLC validation of recorded traces: " + tech,
            })
        else:
            na.append({"property_id": i, "reason": NOT_YET.get(i, "check not built yet (work in progress, see DESIGN.md section 9); not claimed until its TLA+ module and binding exist")})
    m = {
        "version": 1,
        "setup_cmd": "./setup.sh",
        "hooks": {"guard": "SIEVELIB_VERIF", "enable": "none needed: no source hooks; checks import sievelib from /repo's working tree in fresh processes (VERIF_REPO overrides the path)",
                  "baseline_off_cmd": "cd /repo && /venv/bin/python -m pytest -ra -q -p no:cacheprovider --timeout=900 --continue-on-collection-errors",
                  "source_commits": [], "add_only": True},
        "engines": [{"name": "tlc+replay", "path": "/verif/harness", "serves_properties": sorted(CHECKS),
                     "kind_free_text": "TLC 1.8 model checking of /verif/spec/*.tla; Python harness replays TLC-generated behaviours into sievelib and has TLC validate traces recorded from sievelib"}],
        "checks": checks,
        "not_applicable": na,
        "notes": "fix: commits in /repo and open findings are listed in /verif/known_findings.json; see DESIGN.md section 5.",
    }
    with open(os.path.join(VERIF, "MANIFEST.json"), "w") as fp:
        json.dump(m, fp, indent=1)


if __name__ == "__main__":
    main()
