"""After `harness/run_all.sh quick`: every open finding must be announced (KNOWN-FINDING) by the quick check of each property
it is filed under, and no check may announce a finding that is not filed under its property."""
import json
import os
import re
import sys

VERIF = os.path.dirname(os.path.dirname(os.path.abspath(__file__)))
f = json.load(open(os.path.join(VERIF, "known_findings.json")))["findings"]
ok = True
seen = {}
for c in ["C%02d" % i for i in range(1, 21)]:
    p = os.path.join(VERIF, "build", "run_%s.out" % c)
    if not os.path.exists(p):
        print("missing", p)
        continue
    for line in open(p):
        m = re.match(r"KNOWN-FINDING: property=(C\d+) (\w+) ", line)
        if m:
            seen.setdefault(m.group(2), set()).add(m.group(1))
for x in f:
    if x["status"] != "open":
        continue
    for prop in x["properties"]:
        if prop not in seen.get(x["id"], set()):
            print("NOT ANNOUNCED: %s under %s" % (x["id"], prop))
            ok = False
    for prop in seen.get(x["id"], set()):
        if prop not in x["properties"]:
            print("announced under a property it is not filed under: %s %s" % (x["id"], prop))
            ok = False
print("consistent" if ok else "INCONSISTENT")
sys.exit(0 if ok else 1)
