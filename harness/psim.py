"""Grammar-directed deep scripts: random walks of SieveEnum!SimSpec (tlc -simulate) that stay
inside the language; every prefix that is a complete valid script is returned as a token list."""
from . import pengine, slices
from .tlc import run_tlc


def simulate(which, num, depth, seed, devs=()):
    sl = dict(slices.SIMS[which])
    defs, cfg = pengine.mc_defs(sl, depth)
    cfg = cfg.replace("SPECIFICATION Spec", "SPECIFICATION SimSpec").replace("INVARIANT Emit\n", "INVARIANT EmitAcc\n")
    cfg = cfg.replace("PROPERTY Progress\n", "")
    seen = {}
    vocab = [tuple(t) for t in sl["vocab"]]
    prelude = [tuple(t) for t in sl["prelude"]]

    def on_value(v):
        toks = tuple(v[0])
        if toks not in seen:
            seen[toks] = v[2]

    res = run_tlc("sim", "SieveEnum", defs, cfg, on_value=on_value, workers=8, simulate=num, depth=depth,
                  seed=seed)
    out = []
    for toks, outs in seen.items():
        out.append((prelude + [vocab[i - 1] for i in toks], outs))
    return out, res
