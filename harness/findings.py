"""known_findings.json: committed, never written at run time.

An *open* finding is identified by a named deviation of the specification (a `Dev_...`
branch with its guard in the TLA+ modules) or, for the non-parser modules, by a named
deviation of the module's reference.  Checks enable exactly the open deviations in TLC;
an observation that the reference cannot explain but an enabled deviation path predicts
is reported as KNOWN-FINDING, anything else as VIOLATION.  `fixed` entries enable
nothing: if the behaviour comes back it is a violation again.
"""
import json
import os

VERIF = os.path.dirname(os.path.dirname(os.path.abspath(__file__)))


def load():
    with open(os.path.join(VERIF, "known_findings.json")) as fp:
        return json.load(fp)["findings"]


def open_devs(module=None):
    out = []
    for f in load():
        if f["status"] == "open" and f.get("dev") and (module is None or f.get("module") == module):
            out.append(f["dev"])
    return sorted(set(out))


def by_dev():
    return {f["dev"]: f for f in load() if f.get("dev")}


def for_property(prop, status="open"):
    return [f for f in load() if f["status"] == status and prop in f["properties"]]
