"""Server side of SASL DIGEST-MD5 (RFC 2831, qop=auth), written from the RFC and independent of
sievelib/digest_md5.py: builds the digest-challenge, parses and verifies the client's digest-response
against the credentials the *caller* gave, and builds the response-auth.

Trusted base of C16 for this mechanism (like the PLAIN/LOGIN/OAUTHBEARER decoders).
"""
import base64
import hashlib
import re


class Bad(Exception):
    pass


def H(b):
    return hashlib.md5(b).digest()


def HEX(b):
    return hashlib.md5(b).hexdigest().encode("ascii")


TOKEN = re.compile(rb"[!#$%&'*+\-.^_`|~0-9A-Za-z]+")


def parse_directives(raw):
    """#( name "=" ( token | quoted-string ) ) -> list of (name, value, was_quoted); raises Bad"""
    out = []
    i, n = 0, len(raw)
    while i < n:
        while i < n and raw[i:i + 1] in b" \t,":
            i += 1
        if i >= n:
            break
        m = TOKEN.match(raw, i)
        if not m:
            raise Bad("no directive name at octet %d of %r" % (i, raw))
        name = m.group(0).decode("ascii").lower()
        i = m.end()
        if raw[i:i + 1] != b"=":
            raise Bad("directive %s without '='" % name)
        i += 1
        if raw[i:i + 1] == b'"':
            i += 1
            val = b""
            while True:
                if i >= n:
                    raise Bad("unterminated quoted-string in directive %s of %r" % (name, raw))
                c = raw[i:i + 1]
                if c == b"\\":
                    if i + 1 >= n:
                        raise Bad("dangling backslash in directive %s" % name)
                    val += raw[i + 1:i + 2]
                    i += 2
                elif c == b'"':
                    i += 1
                    break
                else:
                    val += c
                    i += 1
            out.append((name, val, True))
        else:
            m = TOKEN.match(raw, i)
            if not m:
                raise Bad("directive %s has neither a token nor a quoted-string value in %r" % (name, raw))
            out.append((name, m.group(0), False))
            i = m.end()
        if i < n and raw[i:i + 1] not in b", \t":
            raise Bad("octet %r after the value of directive %s in %r" % (raw[i:i + 1], name, raw))
    return out


def challenge(realm, nonce, qop=b"auth", charset=True):
    parts = []
    if realm is not None:
        parts.append(b'realm="' + realm + b'"')
    parts.append(b'nonce="' + nonce + b'"')
    parts.append(b'qop="' + qop + b'"')
    if charset:
        parts.append(b"charset=utf-8")
    parts.append(b"algorithm=md5-sess")
    return b",".join(parts)


def _hash_form(text, utf8):
    """RFC 2831 2.1.2.1: with charset=utf-8, a value whose characters all fit ISO 8859-1 is converted to
    ISO 8859-1 before hashing; without charset the octets are ISO 8859-1 anyway."""
    if not utf8:
        return text.encode("iso-8859-1")
    try:
        return text.encode("iso-8859-1")
    except UnicodeEncodeError:
        return text.encode("utf-8")


def expected(login, password, authz, realm, nonce, cnonce, uri, utf8, authz_in_a1, rsp=False, legacy_hash=False):
    if legacy_hash:
        # many servers (and clients) hash the UTF-8 octets as sent; accepted as an alternative reading
        u, p = login.encode("utf-8"), password.encode("utf-8")
    else:
        u, p = _hash_form(login, utf8), _hash_form(password, utf8)
    a1 = H(u + b":" + (realm or b"") + b":" + p) + b":" + nonce + b":" + cnonce
    if authz_in_a1:
        a1 += b":" + authz.encode("utf-8")
    a2 = (b":" if rsp else b"AUTHENTICATE:") + uri
    return HEX(HEX(a1) + b":" + nonce + b":00000001:" + cnonce + b":auth:" + HEX(a2))


def verify(raw, login, password, authz, realm, nonce, host, offered_charset=True, strict_latin1=False):
    """-> (problem or None, rspauth bytes or None)"""
    try:
        ds = parse_directives(raw)
    except Bad as e:
        return "DIGEST-MD5: response is no RFC 2831 directive list: %s" % e, None
    names = [d[0] for d in ds]
    for nm in ("username", "nonce", "cnonce", "nc", "digest-uri", "response"):
        if names.count(nm) != 1:
            return "DIGEST-MD5: directive %s appears %d times in %r" % (nm, names.count(nm), raw), None
    for nm in ("realm", "qop", "charset", "authzid", "cipher", "maxbuf"):
        if names.count(nm) > 1:
            return "DIGEST-MD5: directive %s appears %d times" % (nm, names.count(nm)), None
    d = {k: (v, q) for k, v, q in ds}
    for nm in ("username", "nonce", "cnonce", "digest-uri"):
        if not d[nm][1]:
            return "DIGEST-MD5: %s must be a quoted-string" % nm, None
    utf8 = False
    if "charset" in d:
        if d["charset"][0].lower() != b"utf-8" or not offered_charset:
            return "DIGEST-MD5: charset=%r" % d["charset"][0], None
        utf8 = True
    try:
        user = d["username"][0].decode("utf-8" if utf8 else "iso-8859-1")
    except UnicodeDecodeError:
        return "DIGEST-MD5: username %r is not UTF-8 although charset=utf-8 was sent" % d["username"][0], None
    if user != login:
        return ("DIGEST-MD5: username read by the server is %r, the caller's login is %r (charset directive %s)"
                % (user, login, "sent" if utf8 else "not sent")), None
    if realm is not None:
        if "realm" not in d or d["realm"][0] != realm:
            return "DIGEST-MD5: realm %r, offered %r" % (d.get("realm", (None,))[0], realm), None
    elif "realm" in d and d["realm"][0] != b"":
        return "DIGEST-MD5: realm %r although none was offered" % d["realm"][0], None
    if d["nonce"][0] != nonce:
        return "DIGEST-MD5: nonce %r, the challenge had %r" % (d["nonce"][0], nonce), None
    if d["nc"][0] != b"00000001":
        return "DIGEST-MD5: nc=%r on a first response" % d["nc"][0], None
    if "qop" in d and d["qop"][0] != b"auth":
        return "DIGEST-MD5: qop=%r" % d["qop"][0], None
    if d["digest-uri"][0] != b"sieve/" + host:
        return "DIGEST-MD5: digest-uri %r, want %r" % (d["digest-uri"][0], b"sieve/" + host), None
    cnonce = d["cnonce"][0]
    if not cnonce:
        return "DIGEST-MD5: empty cnonce", None
    az = d.get("authzid", (None,))[0]
    if authz:
        if az is None:
            return "DIGEST-MD5: authorisation id %r not sent" % authz, None
        if az != authz.encode("utf-8"):
            return "DIGEST-MD5: authzid %r, the caller gave %r" % (az, authz), None
    elif az:
        return "DIGEST-MD5: authzid %r although the caller gave none" % az, None
    in_a1 = [True] if authz else ([False, True] if az is not None else [False])
    resp = d["response"][0]
    if not re.fullmatch(rb"[0-9a-f]{32}", resp):
        return "DIGEST-MD5: response %r is not 32 lower-case hex digits" % resp, None
    readings = [False] if strict_latin1 else [False, True]
    for legacy in readings:
        for ia in in_a1:
            if resp == expected(login, password, authz, realm, nonce, cnonce, d["digest-uri"][0], utf8, ia,
                                legacy_hash=legacy):
                rsp = expected(login, password, authz, realm, nonce, cnonce, d["digest-uri"][0], utf8, ia, rsp=True,
                               legacy_hash=legacy)
                return None, b"rspauth=" + rsp
    return ("DIGEST-MD5: response value does not match H(A1)/H(A2) computed from the caller's credentials "
            "(login %r, authzid %r, realm %r)" % (login, authz, realm)), None


def b64q(raw):
    return b'"' + base64.b64encode(raw) + b'"\r\n'
