#!/bin/sh
# usage: harness/run_some.sh <tier> <ids...>
T="$1"; shift
mkdir -p build
for c in "$@"; do
  s=$(date +%s)
  ./check $c --tier $T > build/run_$c.out 2>&1; rc=$?
  e=$(date +%s)
  echo "$c tier=$T rc=$rc wall=$((e-s))s viol=$(grep -c '^VIOLATION' build/run_$c.out) known=$(grep -c '^KNOWN' build/run_$c.out) mach=$(grep -c '^MACHINERY' build/run_$c.out)"
done
