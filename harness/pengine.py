"""Parser conformance engine: SieveEnum (TLC) behaviours replayed into sievelib.parser.

One TLC line = one token sequence + the outcome of every path (reference path and
deviation paths).  For each line the sequence is rendered under several layouts, parsed
by the real Parser, and judged per property (C01 verdict, C02 totality, C03 tree,
C07 gating, C18 position).  A judgement that fails against the reference path is
classified with the deviation paths TLC computed: explained by an *open* finding ->
known, otherwise violation.
"""
import json
import multiprocessing as mp
import os
import re
import sys
import time
import zlib

from . import render as R

EXACT = {"lexical", "unknownCommand", "extNotLoaded", "tagNotTaken", "surplusArg",
         "testAsCommand", "nonTestAsTest"}
PROPS = ("C01", "C02", "C03", "C04", "C07", "C18")

_ctx = {}


def nest(flat, raw=False):
    """flat node table from TLC -> list of nested top-level nodes in the impl projection's shape"""
    nodes = []
    for name, par, role, args, blk in flat:
        tags = {}
        pos = []
        for tag, val in args:
            v = conv_val(val, raw)
            if tag == "":
                pos.append(v)
            else:
                tags[tag] = v
        nodes.append([name, tags, pos, [], []])
    top = []
    for i, (name, par, role, args, blk) in enumerate(flat):
        if par == 0:
            top.append(nodes[i])
        elif role == "t":
            nodes[par - 1][3].append(nodes[i])
        else:
            nodes[par - 1][4].append(nodes[i])
    return top


def conv_val(val, raw=False):
    c = (lambda x: x) if raw else R.content_of
    if not val:
        return None
    if val[0] == "l":
        return ["l", [[k, c(x)] for k, x in val[1]]]
    if val[0] in ("s", "m"):
        return [val[0], c(val[1])]
    return [val[0], val[1]]


def loosen(tree):
    """compare string kinds loosely: 's' and 'm' both mean `a string with this content'"""
    return json.loads(json.dumps(tree).replace('["m",', '["s",'))


def pos_of(spans, data, idx):
    """(line, col, len) of token idx (1-based); idx = len+1 -> end of input"""
    if idx <= len(spans):
        off, ln, line, col = spans[idx - 1]
        return (line, col, ln)
    off = len(data)
    return (data.count(b"\n") + 1, off - data.rfind(b"\n"), 0)


def path_matches(q, o, spans, data, ntok, raw=False):
    devs, v, why, warg, bad, irr, tree, loaded = q[:8]
    if v in ("exc",):
        return o["cls"] == "raise"
    if v == "hang":
        return o["cls"] == "hang"
    if o["cls"] != "ret":
        return False
    if v == "acc":
        if o["verdict"] is not True:
            return False
        if "repeatedTag" in irr:
            return True
        return loosen(o["tree"]) == loosen(nest(tree, raw))
    if v in ("rej", "rejlate"):
        if o["verdict"] is not False:
            return False
        ep = o["error_pos"]
        if not (isinstance(ep, tuple) and len(ep) == 3):
            return False
        want = pos_of(spans, data, bad)
        if why == "lexical":
            return (ep[0], ep[1]) == (want[0], want[1])
        if why in EXACT:
            return tuple(ep) == want
        return (ep[0], ep[1]) >= (want[0], want[1])
    return False


POISON = (b'require ["fileinto","reject","envelope","body","vacation","vacation-seconds","variables","date",'
          b'"imap4flags","copy","mailbox","relational","regex","xext"];\n# Filter: stale\n# Description: stale\nkeep')


def judge(tokens, outs, layout, suffix, p, nrunning):
    """render + parse + judge_obs"""
    from . import sieve_impl as I
    data, spans = R.render(tokens, layout, suffix)
    if len(data) % 4 == 1:
        # the same parser object has just read (and rejected) a script that required every extension and
        # left comments pending: nothing of it may influence this parse
        p.parse(POISON)
    elif len(data) % 4 == 3:
        # ... or *another*, more recently created Parser object did (the judged parser is the older one)
        _ctx["parser2"].parse(POISON)
    o = I.run_parse(p, data, rt=_ctx.get("roundtrip", False))
    failed = judge_obs(o, data, spans, len(tokens), outs)
    if _ctx.get("named") and o["verdict"] is True:
        ref = [q for q in outs if not q[0]][0]
        if ref[1] == "acc" and not ref[5]:
            from . import c_custom
            want = c_custom.named_expectation(_ctx["worker_setup"][1], ref[6])
            have = I.named_args(p.result, _ctx["named"])
            if json.loads(json.dumps(want)) != json.loads(json.dumps(have)):
                failed["C20"] = "arguments not recorded under the defined names: %r, definition says %r" % (have, want)
    return failed, o, data, spans


def judge_obs(o, data, spans, ntok, outs, lexnote=(), raw=False):
    """-> {prop: detail} for every property judgement that fails against the reference path"""
    ref = [q for q in outs if not q[0]]
    assert len(ref) == 1, outs
    ref = ref[0]
    devs, v, why, warg, bad, irr, tree, loaded = ref[:8]
    irrat = ref[8] if len(ref) > 8 else 0
    res = {}
    nlf = data.count(b"\n")
    # ---- C02: totality and shape
    c02 = None
    if o["cls"] != "ret":
        c02 = "outcome %s %s" % (o["cls"], o.get("exc", ""))
    elif o["verdict"] is True:
        pass
    elif o["verdict"] is False:
        m = re.match(r"line (\d+): .", o["error"] or "") if isinstance(o["error"], str) else None
        ep = o["error_pos"]
        if not m or not (1 <= int(m.group(1)) <= 1 + nlf):
            c02 = "error text %r" % (o["error"],)
        elif not (isinstance(ep, tuple) and len(ep) == 3 and all(type(x) is int for x in ep)):
            c02 = "error_pos %r" % (ep,)
    else:
        c02 = "verdict %r" % (o["verdict"],)
    if c02 is None and o["yields"] > 2 * (ntok + 8) + 2 * data.count(b"#") + 2 * data.count(b"/*") + 40:
        c02 = "yields %d for %d tokens" % (o["yields"], ntok)
    res["C02"] = c02
    # ---- C01: verdict
    if o["cls"] == "ret" and not irr:
        if (v == "acc") != (o["verdict"] is True):
            res["C01"] = "ref %s(%s) impl %s" % (v, why, o["verdict"])
    # ---- C03: tree
    if o["cls"] == "ret" and o["verdict"] is True and "repeatedTag" not in irr:
        if v == "acc":
            if loosen(o["tree"]) != loosen(nest(tree, raw)):
                res["C03"] = "tree differs"
        else:
            res["C03"] = "accepted a script the reference rejects (%s): tree unexplained" % why
    # ---- C07: gating
    if o["cls"] == "ret":
        if o["verdict"] is True and v == "rej" and why == "extNotLoaded":
            res["C07"] = "accepted although extension %s is not loaded" % warg
        # (irregularities that cannot make a correct parser reject earlier do not excuse a wrong message)
        if o["verdict"] is False and v == "rej" and why == "extNotLoaded" and not (set(irr) - {"unknownExt", "lateRequire"}):
            if ("extension '%s' not loaded" % warg) not in (o["error"] or ""):
                res["C07"] = "rejected, but message does not name %s: %r" % (warg, o["error"])
    # ---- C18: position
    if o["cls"] == "ret" and o["verdict"] is False and v == "rej" and not irr:
        ep = o["error_pos"]
        want = pos_of(spans, data, bad)
        if isinstance(ep, tuple) and len(ep) == 3:
            m = re.match(r"line (\d+): ", o["error"] or "")
            if why == "lexical":
                if (ep[0], ep[1]) != want[:2] or not m or int(m.group(1)) != want[0]:
                    res["C18"] = "%s: want %r got %r" % (why, want[:2], ep)
            elif why in EXACT:
                if (ep[0], ep[1], ep[2]) != want or not m or int(m.group(1)) != want[0]:
                    res["C18"] = "%s: want %r got %r" % (why, want, ep)
            elif (ep[0], ep[1]) < (want[0], want[1]):
                res["C18"] = "%s: reported %r before first invalid token at %r" % (why, ep, want)
    # ---- C18 for irregular (dontcare) inputs: the prefix before the first irregularity is regular and viable,
    # so no error may be reported before that token
    if o["cls"] == "ret" and o["verdict"] is False and irr and irrat:
        ep = o["error_pos"]
        first = min(irrat, bad) if (v == "rej" and bad) else irrat
        want = pos_of(spans, data, first)
        if isinstance(ep, tuple) and len(ep) == 3 and (ep[0], ep[1]) < (want[0], want[1]):
            res["C18"] = "reported %r before the first token that can make the script invalid at %r" % (ep, want)
    # ---- C04: print/parse round trip of what was accepted
    if o.get("rt") and o["rt"].get("problem") and not irr and v == "acc":
        res["C04"] = o["rt"]["problem"] + " | " + o["rt"].get("text", "")[-120:]
    failed = {k: d for k, d in res.items() if d}
    if lexnote:          # outside the exercised lexical alphabet: only totality is judged
        failed = {k: d for k, d in failed.items() if k == "C02"}
    return failed


def explain(outs, o, spans, data, failed, raw=False):
    """smallest deviation set whose path predicts the observation (None if there is none).
    A position that depends on the suffix can only be explained by a `rejlate' path."""
    expl = None
    suffixdep = "C18" in failed and failed["C18"].startswith("position depends")
    for q in outs:
        if not q[0]:
            continue
        if suffixdep and q[1] != "rejlate":
            continue
        if path_matches(q, o, spans, data, 0, raw):
            if expl is None or len(q[0]) < len(expl):
                expl = q[0]
    return expl


CLOSER = {"lc": " }", "lp": " )", "lb": " ]"}


def completion(tokens):
    """The most plausible way to go on after a rejected sequence: what the last token would need if it were
    accepted (a block after an identifier, a semicolon after an argument), then a closer for every construct
    still open.  A parser that wrongly swallows the offending token then reaches the end of a well-formed
    script instead of a truncated one (reject-sticks, C01; position independent of what follows, C18)."""
    stack = []
    for k, _ in tokens:
        if k in CLOSER:
            stack.append(k)
        elif k in ("rc", "rp", "rb") and stack:
            stack.pop()
    last = tokens[-1][0] if tokens else "semi"
    head = " { }" if last == "id" else (" ;" if last in ("str", "num", "tag", "ml", "rb", "rp") else "")
    return head + "".join(CLOSER[k] for k in reversed(stack))


def init_worker(ctx):
    global _ctx
    _ctx = ctx
    from . import sieve_impl as I
    if ctx.get("worker_setup"):
        fn, arg = ctx["worker_setup"]
        fn(arg)
    _ctx["parser"] = I.new_parser()
    _ctx["parser2"] = I.new_parser()        # created after the judged one, used only for poison parses


def work(lines):
    """lines: list of TLC values; returns (counters, records)"""
    ctx = _ctx
    vocab = ctx["vocab"]
    prelude = ctx["prelude"]
    p = ctx["parser"]
    layouts = ctx["layouts"]
    suffixes = ctx["suffixes"]
    cnt = {"parses": 0, "lines": 0, "acc": 0, "rej": 0, "dc": 0, "trees": 0}
    recs = []
    for toks, nrunning, outs in lines:
        cnt["lines"] += 1
        tokens = prelude + [vocab[i - 1] for i in toks]
        ref = [q for q in outs if not q[0]][0]
        if ref[5]:
            cnt["dc"] += 1
        elif ref[1] == "acc":
            cnt["acc"] += 1
        else:
            cnt["rej"] += 1
            cnt["why:" + ref[2]] = cnt.get("why:" + ref[2], 0) + 1
        for q in outs:
            for dname in q[0]:
                cnt["dev:" + dname] = cnt.get("dev:" + dname, 0) + 1
        h = zlib.crc32(json.dumps(toks).encode())
        lays = [layouts[0]] + ([layouts[1 + h % (len(layouts) - 1)]] if len(layouts) > 1 and ctx["nlay"] == 2 else layouts[1:ctx["nlay"]])
        sufs = [""]
        if nrunning == 0 and all(q[1] in ("rej", "rejlate") for q in outs):
            sufs = [""] + [suffixes[(h + k) % len(suffixes)] for k in range(ctx["nsuf"])]
            if ctx["nsuf"]:
                sufs.append(completion(tokens))
        base = {}
        for lay in lays:
            for suf in sufs:
                failed, o, data, spans = judge(tokens, outs, lay, suf, p, nrunning)
                cnt["parses"] += 1
                if o["verdict"] is True:
                    cnt["trees"] += 1
                # suffix independence of reported position (C18) and verdict (C01)
                if suf == "":
                    base[lay] = o
                else:
                    b = base[lay]
                    if b["cls"] == "ret" and o["cls"] == "ret" and b["verdict"] is False and not ref[5]:
                        if o["verdict"] is False and o["error_pos"] != b["error_pos"]:
                            failed.setdefault("C18", "position depends on what follows: %r vs %r" % (b["error_pos"], o["error_pos"]))
                if failed:
                    expl = explain(outs, o, spans, data, failed)
                    recs.append({"toks": toks, "layout": lay, "suffix": suf, "failed": failed,
                                 "expl": expl, "text": data.decode("utf-8", "replace"),
                                 "ref": ref[:6],
                                 "obs": {k: o[k] for k in ("cls", "verdict", "error", "error_pos", "yields")} | ({"exc": o["exc"]} if "exc" in o else {})})
    return cnt, recs


def mc_defs(sl, maxlen):
    from .tlc import tla_val
    def tk(t):
        return "TK(%s, %s)" % (tla_val(t[0]), tla_val(t[1]))
    defs = "MCVocab == <<%s>>\nMCPrelude == <<%s>>\nMCCustom == %s\n" % (
        ", ".join(tk(t) for t in sl["vocab"]), ", ".join(tk(t) for t in sl["prelude"]),
        sl.get("custom", "<<>>"))
    cfg = ("SPECIFICATION Spec\nCONSTANTS\n Vocab <- MCVocab\n Prelude <- MCPrelude\n Custom <- MCCustom\n"
           " MaxLen = %d\n EnabledDevs = {%s}\n"
           "INVARIANT Emit\nINVARIANT OneRefPath\nINVARIANT GatedInv\nINVARIANT RejectSticksInv\n"
           "INVARIANT OneTokenPerStep\nINVARIANT RoundTrip\nPROPERTY Progress\nCHECK_DEADLOCK FALSE\n"
           % (maxlen, ", ".join('"%s"' % d for d in sl.get("devs", []))))
    return defs, cfg


def run_slice(sl, maxlen, layouts, nlay, nsuf, suffixes, nproc=14, tlc_workers=8, chunk=400, roundtrip=False,
              worker_setup=None, named=None):
    """-> (tlc result, counters, records)"""
    from .tlc import run_tlc
    ctx = {"vocab": [tuple(t) for t in sl["vocab"]], "prelude": [tuple(t) for t in sl["prelude"]],
           "layouts": layouts, "nlay": nlay, "nsuf": nsuf, "suffixes": suffixes, "roundtrip": roundtrip,
           "worker_setup": worker_setup, "named": named}
    pool = mp.Pool(nproc, initializer=init_worker, initargs=(ctx,))
    pending = []
    buf = []
    total = {}
    records = []

    def collect(block=False):
        nonlocal pending
        keep = []
        for r in pending:
            if block or r.ready():
                cnt, recs = r.get()
                for k, v in cnt.items():
                    total[k] = total.get(k, 0) + v
                if len(records) < 200000:
                    records.extend(recs)
            else:
                keep.append(r)
        pending = keep

    def on_value(v):
        buf.append(v)
        if len(buf) >= chunk:
            pending.append(pool.apply_async(work, (buf[:],)))
            buf.clear()
            if len(pending) > 4 * nproc:
                collect()
                while len(pending) > 8 * nproc:
                    time.sleep(0.01)
                    collect()

    defs, cfg = mc_defs(sl, maxlen)
    try:
        res = run_tlc("enum_" + sl["name"], "SieveEnum", defs, cfg, on_value=on_value, workers=tlc_workers)
        if buf:
            pending.append(pool.apply_async(work, (buf[:],)))
        collect(block=True)
    finally:
        pool.close()
        pool.join()
    return res, total, records
