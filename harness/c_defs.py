"""Checks C06 (generated scripts valid, self-sufficient, injection-free) and C19 (read-back)
against spec/FilterDefs.tla.

TLC proves for every definition of the space that its token skeleton, preceded by a require of
exactly the extensions it uses, is strictly valid for the reference recogniser (SkeletonValid,
RequireExact) and prints definition, skeleton and extensions.  The harness builds each definition
through the public API with concrete values per value class, lexes the real output with the
independent lexer, compares it with the skeleton token by token, checks the require, asks the real
parser, has TLC (SieveTrace) judge the observed tokens, and reads the definition back.
"""
import json
import multiprocessing as mp
import os
import random
import time

from . import evidence, findings, lexref, ptrace, render as R
from .tlc import run_tlc, tla_val

VERIF = os.path.dirname(os.path.dirname(os.path.abspath(__file__)))


def cond(k, neg=False, t1="", t2="", v1=("s", ""), v2=("s", ""), n=""):
    return {"k": k, "neg": neg, "t1": t1, "t2": t2, "v1": list(v1) if v1[0] == "s" else ["l", list(v1[1])],
            "v2": list(v2) if v2[0] == "s" else ["l", list(v2[1])], "n": n}


def act(k, tags=(), v1="", sub="", days="7", secs="3600", lst=()):
    return {"k": k, "tags": set(tags), "v1": v1, "sub": sub, "days": days, "secs": secs, "lst": list(lst)}


def spaces(tier, prop):
    if prop == "C19":
        vals = ["@plain", "@comma", "@space", "@brackets", "@nonascii"]
    else:
        vals = ["@plain", "@comma", "@brackets", "@nonascii", "@innerq", "@bslash", "@newline", "@mlshape", "@mlinject", "@semi", "@hash",
                "@endbs", "@tag"]
    if tier == "quick":
        vals = vals[:9]
    conds = []
    for i, v in enumerate(vals):
        tag = [":is", ":contains", ":matches"][i % 3]
        conds.append(cond("header", i % 2 == 1, tag, v1=("s", "Subject"), v2=("s", v)))
        conds.append(cond("header", False, tag, v1=("s", v), v2=("s", "x")))
    if prop != "C19":     # C19 claims header conditions with string values only
        conds.append(cond("header", False, ":is", v1=("l", ["To", "Cc"]), v2=("l", ["@plain", "@nonascii"])))
        conds.append(cond("header", True, ":contains", v1=("s", "From"), v2=("l", ["a", "@space"])))
        conds.append(cond("header", False, ":is", v1=("l", ["X-" + "Q", "@innerq"]), v2=("l", ["@bslash", "@semi", "x"])))
        conds.append(cond("address", False, ":is", v1=("l", ["from", "@innerq"]), v2=("l", ["@endbs", "y"])))
        conds.append(cond("envelope", False, ":is", v1=("l", ["from"]), v2=("l", ["@innerq", "@bslash"])))
        conds.append(cond("exists", False, v1=("l", ["@innerq", "@bslash"])))
        conds.append(cond("body", False, ":text", ":contains", v1=("l", ["@semi", "@endbs"])))
    for hn in ("Notes", "NOTIFY-ID", "Size", "Body", "Exists", "True", "Envelope", "Address", "Currentdate", "Not"):
        conds.append(cond("header", False, ":contains", v1=("s", hn), v2=("s", "x")))
    conds += [cond("true"), cond("false")]
    conds += [cond("size", False, ":over", n="100K"), cond("size", False, ":under", n="2M")]
    conds += [cond("exists", False, v1=("l", ["X-A"])), cond("exists", True, v1=("l", ["X-A", "X-B"])),
              cond("exists", False, v1=("l", [vals[2], "X-Z"]))]
    conds += [cond("envelope", False, ":is", v1=("l", ["from"]), v2=("l", ["a@b.c"])),
              cond("envelope", True, ":contains", v1=("l", ["to", "from"]), v2=("l", [vals[1], "x"]))]
    conds += [cond("address", False, ":is", v1=("s", "from"), v2=("s", "a@b.c")),
              cond("address", True, ":contains", v1=("l", ["to", "cc"]), v2=("l", ["x", vals[3]])),
              cond("address", False, ":matches", v1=("s", "from"), v2=("s", vals[-1]))]
    conds += [cond("body", False, ":raw", ":contains", v1=("l", ["viagra"])),
              cond("body", True, ":text", ":contains", v1=("l", ["a", vals[1]])),
              cond("body", False, ":text", ":is", v1=("l", [vals[-1]]))]
    conds += [cond("currentdate", False, ":is", "", v1=("s", "date"), v2=("l", ["2024-01-01"])),
              cond("currentdate", False, ":value", "ge", v1=("s", "date"), v2=("l", ["2024-01-01"])),
              cond("currentdate", True, ":is", "", v1=("s", "weekday"), v2=("l", ["0", "6"]))]
    acts = []
    cond_vals = vals
    # in an action tuple a string that starts with ':' *is* a tag by the API's own convention (("fileinto", ":copy", "x")):
    # such a value cannot be expressed there, like a value starting with a quote (outside the claim)
    vals = [v for v in vals if v != "@tag"]
    for tg in ([], [":copy"], [":create"], [":copy", ":create"], [":flags"], [":copy", ":flags"]):
        if prop == "C19" and ":flags" in tg:
            continue          # C19 claims value-less tags only
        acts.append(act("fileinto", tg, "Folder" if tg else vals[0]))
    for v in vals[1:]:
        acts.append(act("fileinto", [], v))
    acts += [act("redirect", [], "a@b.c"), act("redirect", [":copy"], vals[-1]), act("reject", [], "no"),
             act("reject", [], vals[4 % len(vals)]), act("keep"), act("discard"), act("stop"),
             act("setflag", [], "\\Seen" if prop != "C19" else "flag1"), act("addflag", [], "@plain"),
             act("removeflag", [], "\\Flagged" if prop != "C19" else "@nonascii")]
    for tg in ([], [":subject"], [":subject", ":days"], [":days", ":from"], [":seconds"], [":subject", ":handle", ":mime"],
               [":subject", ":days", ":from", ":handle"]):
        acts.append(act("vacation", tg, "gone" if len(tg) != 1 else vals[-1], sub=vals[1]))
    if prop != "C19":      # C19 claims positional strings and value-less tags only
        acts += [act("setflag", lst=["\\Seen", "\\Flagged"]), act("addflag", lst=[vals[1], "@innerq", "@bslash"]),
                 act("removeflag", lst=["@endbs"]), act("fileinto", [":flags"], "Folder", lst=["\\Seen", vals[2]]),
                 act("fileinto", [":copy", ":flags", ":create"], vals[3], lst=["@innerq"]),
                 act("vacation", [":addresses"], "gone", lst=["me@example.org", "@innerq"]),
                 act("vacation", [":subject", ":addresses", ":days"], "gone", sub=vals[1], lst=["@comma"])]
    acts.append(act("vacation", [":days"], "zero days", days="0"))
    acts.append(act("vacation", [":seconds", ":subject"], "zero seconds", sub="s", secs="0"))
    return conds, acts


def tlc_defs(conds, acts, pairs):
    defs = "MCConds == %s\nMCActs == %s\n" % (tla_val(set_of(conds)), tla_val(set_of(acts)))
    cfg = ("SPECIFICATION Spec\nCONSTANTS\n Conds <- MCConds\n Acts <- MCActs\n Pairs = %s\n EnabledDevs = {}\n"
           "INVARIANT Emit\nINVARIANT SkeletonValid\nINVARIANT RequireExact\nCHECK_DEADLOCK FALSE\n" % ("TRUE" if pairs else "FALSE"))
    out = []
    res = run_tlc("defs", "FilterDefs", defs, cfg, on_value=out.append, workers=8)
    return out, res


class set_of(list):
    pass


def _tla_patch():
    # sets of dicts are not hashable in python: render a list as a TLA+ set
    from . import tlc as T
    orig = T.tla_val

    def tv(v):
        if isinstance(v, set_of):
            return "{" + ", ".join(tv(x) for x in v) + "}"
        if isinstance(v, dict):
            return "[" + ", ".join("%s |-> %s" % (k, tv(x)) for k, x in v.items()) + "]"
        if isinstance(v, (set, frozenset)):
            return "{" + ", ".join(tv(x) for x in sorted(v)) + "}"
        if isinstance(v, (list, tuple)) and not (len(v) == 2 and v[0] in ("fn", "raw")):
            return "<<" + ", ".join(tv(x) for x in v) + ">>"
        return orig(v)
    return tv


tla_val = _tla_patch()


# ------------------------------------------------------------------ API side
def val(v):
    """abstract value -> API value"""
    if v[0] == "s":
        return R.content_of(v[1])
    return [R.content_of(x) for x in v[1]]


def api_cond(c):
    k, neg, t1 = c["k"], c["neg"], c["t1"]
    nt = ":not" + t1[1:] if neg and t1 else t1
    if k in ("true", "false"):
        return (k,)
    if k == "header":
        return (val(c["v1"]), nt, val(c["v2"]))
    if k == "size":
        return ("size", t1, c["n"])
    if k == "exists":
        return (("notexists" if neg else "exists"),) + tuple(val(c["v1"]))
    if k == "envelope":
        return ("envelope", nt, val(c["v1"]), val(c["v2"]))
    if k == "address":
        return ("address", nt, val(c["v1"]), val(c["v2"]))
    if k == "body":
        t2 = c["t2"]
        return ("body", t1, (":not" + t2[1:]) if neg else t2) + tuple(val(c["v1"]))
    t = (":not" + t1[1:]) if neg else t1
    return ("currentdate", ":zone", "+0100", t) + ((c["t2"],) if c["t2"] else ()) + (val(c["v1"]),) + tuple(val(c["v2"]))


def api_act(a):
    k = a["k"]
    tags = a["tags"]
    if k == "fileinto":
        out = ["fileinto"] + [t for t in (":copy", ":create") if t in tags]
        if ":flags" in tags:
            out += [":flags", [R.content_of(x) for x in a["lst"]] if a["lst"] else "\\Seen"]
        return tuple(out + [R.content_of(a["v1"])])
    if k == "redirect":
        return tuple(["redirect"] + ([":copy"] if ":copy" in tags else []) + [R.content_of(a["v1"])])
    if k in ("reject", "setflag", "addflag", "removeflag"):
        return (k, [R.content_of(x) for x in a["lst"]] if a["lst"] else R.content_of(a["v1"]))
    if k == "vacation":
        out = ["vacation"]
        if ":subject" in tags:
            out += [":subject", R.content_of(a["sub"])]
        if ":days" in tags:
            out += [":days", int(a["days"])]
        if ":seconds" in tags:
            out += [":seconds", int(a["secs"])]
        if ":from" in tags:
            out += [":from", "me@example.org"]
        if ":handle" in tags:
            out += [":handle", "h1"]
        if ":mime" in tags:
            out += [":mime"]
        if ":addresses" in tags:
            out += [":addresses", [R.content_of(x) for x in a["lst"]]]
        return tuple(out + [R.content_of(a["v1"])])
    return (k,)


def norm(x):
    """tuples/lists -> nested lists for comparison"""
    if isinstance(x, (tuple, list)):
        return [norm(y) for y in x]
    return x


def run_def(task):
    from . import fs_impl as F
    d, skel, exts, skeltree, prop = task
    conds = [api_cond(c) for c in d["conds"]]
    acts = [api_act(a) for a in d["acts"]]
    probs = []
    fs = F.sfactory.FiltersSet("t")
    r = F.call(fs.addfilter, "n1", conds, acts, d["mt"])
    if r != "None":
        return [{"prop": "both", "what": "build refused: addfilter raised %s" % r, "conds": repr(conds), "acts": repr(acts)}], None
    text = F.render(fs)
    data = text.encode("utf-8")
    toks, spans, note = lexref.lex(data)
    info = {"text": text, "toks": toks}
    if prop == "C06":
        # expected tokens: require part (any order of names) + skeleton
        want = [(t["k"], R.content_of(t["v"]) if t["k"] in ("str", "ml") else t["v"]) for t in skel]
        have = list(toks)
        req = []
        if have[:2] == [("id", "require"), ("lb", "")]:
            j = have.index(("rb", ""))
            req = [v for k, v in have[2:j] if k == "str"]
            have = have[j + 2:]
        elif have[:1] == [("id", "require")] and len(have) > 2 and have[1][0] == "str":
            req = [have[1][1]]
            have = have[3:]
        p = F.sparser.Parser()
        if not p.parse(data):
            probs.append({"prop": "C06", "what": "generated script rejected by the parser: %s" % p.error, "text": text})
        if set(exts) - set(req):
            probs.append({"prop": "C06", "what": "require %r does not name %r" % (req, sorted(set(exts) - set(req))), "text": text})
        if have != want:
            k = next((i for i in range(min(len(have), len(want))) if have[i] != want[i]), min(len(have), len(want)))
            probs.append({"prop": "C06", "what": "token %d of the generated filter is %r, skeleton says %r (values must only be string contents)"
                                                 % (k, have[k] if k < len(have) else None, want[k] if k < len(want) else None), "text": text,
                          "tokens_differ": True, "skeltree": skeltree})
        # disabled filters keep their requires and stay valid
        fs.disablefilter("n1")
        t2 = F.render(fs)
        p2 = F.sparser.Parser()
        if not p2.parse(t2):
            probs.append({"prop": "C06", "what": "script with the filter disabled rejected by the parser: %s" % p2.error, "text": t2})
    else:
        for stage in ("original", "disabled", "reloaded", "updated-while-disabled", "updated-reloaded"):
            cur = fs
            if stage == "disabled":
                fs.disablefilter("n1")
            if stage in ("reloaded", "updated-reloaded"):
                cur, prob = F.reload(fs, None)
                if prob:
                    probs.append({"prop": "C19", "what": "reload impossible: " + prob, "text": text})
                    break
            if stage == "updated-while-disabled":
                # the same definition given to updatefilter on a disabled filter that is renamed at the same time
                fs = F.sfactory.FiltersSet("u")
                fs.addfilter("n0", [("Subject", ":is", "old")], [("keep",)])
                fs.addfilter("other", [("Subject", ":is", "o")], [("stop",)])
                fs.disablefilter("n0")
                r = F.call(fs.updatefilter, "n0", "n1", conds, acts, d["mt"])
                if r != "True":
                    probs.append({"prop": "C19", "what": "updatefilter on a disabled filter returned %s" % r, "text": text})
                    break
                cur = fs
            gc = F.call(lambda: norm(cur.get_filter_conditions("n1")))
            ga = F.call(lambda: norm(cur.get_filter_actions("n1")))
            gm = F.call(lambda: cur.get_filter_matchtype("n1"))
            wc, wa = repr(norm(readback_conds(conds))), repr(norm(readback_acts(acts)))
            odevs = findings.open_devs("FilterDefs")
            if gc != wc:
                expl = [dv for dv in odevs if repr(norm(readback_conds(conds, [dv]))) == gc] or \
                       ([odevs] if repr(norm(readback_conds(conds, odevs))) == gc else [])
                if not expl:
                    # two deviations on the same definition (a comma in a value of a filter that also has an address
                    # condition): their interplay is not predicted value by value; known only if both guards hold
                    flat = repr(conds)
                    both = [dv for dv in odevs if (dv == "Dev_CommaSplitsValue" and "," in "".join(x for c in conds for x in _strings(c)))
                            or (dv == "Dev_AddressNotReadBack" and any(c[0] == "address" for c in conds))]
                    if len(both) >= 2:
                        expl = [both]
                probs.append({"prop": "C19", "what": "%s set: get_filter_conditions %s, supplied %s" % (stage, gc, wc), "text": text,
                              "expl": expl[0] if expl else None})
            if ga != wa:
                expl = [dv for dv in odevs if repr(norm(readback_acts(acts, [dv]))) == ga]
                probs.append({"prop": "C19", "what": "%s set: get_filter_actions %s, supplied %s" % (stage, ga, wa), "text": text,
                              "expl": expl[0] if expl else None})
            if gm != repr(d["mt"]):
                probs.append({"prop": "C19", "what": "%s set: get_filter_matchtype %s, supplied %r" % (stage, gm, d["mt"]), "text": text})
            if probs:
                break
        if not probs:
            # an update that changes exactly one component (match type / actions / conditions), everything else --
            # also the name -- as supplied before: afterwards the getters return what the *update* supplied
            other_mt = "allof" if d["mt"] == "anyof" else "anyof"
            for what, a in (("match type", (conds, acts, other_mt)), ("actions", (conds, [("keep",), ("stop",)], other_mt)),
                            ("conditions", ([("Subject", ":contains", "only this")], [("keep",), ("stop",)], other_mt))):
                for disabled in (False, True):
                    fs = F.sfactory.FiltersSet("s")
                    fs.addfilter("n1", conds, acts, d["mt"])
                    fs.addfilter("n2", [("To", ":is", "x")], [("discard",)])
                    if disabled:
                        fs.disablefilter("n1")
                    # walk through the three single-component updates in turn on the same set
                    prev = (conds, acts, d["mt"])
                    for w2, a2 in (("match type", (conds, acts, other_mt)), ("actions", (conds, [("keep",), ("stop",)], other_mt)),
                                   ("conditions", ([("Subject", ":contains", "only this")], [("keep",), ("stop",)], other_mt))):
                        r = F.call(fs.updatefilter, "n1", "n1", *a2)
                        gc = F.call(lambda: norm(fs.get_filter_conditions("n1")))
                        ga = F.call(lambda: norm(fs.get_filter_actions("n1")))
                        gm = F.call(lambda: fs.get_filter_matchtype("n1"))
                        want = (repr(norm(readback_conds(a2[0]))), repr(norm(readback_acts(a2[1]))), repr(a2[2]))
                        if r != "True" or (gc, ga, gm) != want:
                            probs.append({"prop": "C19", "what": "update changing only the %s (filter %s): returned %s; getters give %s / %s / %s, supplied %s / %s / %s"
                                                                 % (w2, "disabled" if disabled else "enabled", r, gc, ga, gm, *want), "text": text,
                                          "expl": None})
                            break
                    if probs:
                        break
                break
    return probs, info


def _strings(x):
    if isinstance(x, str):
        yield x
    elif isinstance(x, (list, tuple)):
        for y in x:
            for z in _strings(y):
                yield z


def _split(v):
    """Dev_CommaSplitsValue: a value holding a comma comes back as several values"""
    out = []
    for x in v:
        if isinstance(x, str) and "," in x and not x.startswith(":"):
            out.extend(x.split(","))
        elif isinstance(x, (list, tuple)):
            out.append(type(x)(_split(x)))
        else:
            out.append(x)
    return out


def readback_conds(conds, devs=()):
    """the tuple shapes get_filter_conditions documents (tests/docstrings): header (name, tag, value...) flattened.
    devs: open deviations to apply (the prediction of what the implementation returns instead)"""
    out = []
    leak = False          # Dev_AddressNotReadBack: the `not' in front of an unreported address test negates the next reported one
    for c in conds:
        if c[0] in ("true", "false"):
            continue                         # not reported (documented: only header/size/exists/body/envelope/currentdate)
        if c[0] == "address":
            if "Dev_AddressNotReadBack" not in devs:
                out.append(c)
            elif c[1].startswith(":not"):
                leak = True
            continue
        if leak:
            leak = False
            if c[0] in ("exists",):
                c = ("notexists",) + tuple(c[1:])
            elif c[0] == "envelope" and not c[1].startswith(":not"):
                c = (c[0], ":not" + c[1][1:]) + tuple(c[2:])
            elif c[0] == "body" and not c[2].startswith(":not"):
                c = tuple(c[:2]) + (":not" + c[2][1:],) + tuple(c[3:])
            elif c[0] == "currentdate" and not c[3].startswith(":not"):
                c = tuple(c[:3]) + (":not" + c[3][1:],) + tuple(c[4:])
            elif c[0] not in ("size", "notexists", "envelope", "body", "currentdate") and isinstance(c[1], str) and not c[1].startswith(":not"):
                c = (c[0], ":not" + c[1][1:]) + tuple(c[2:])
        if c[0] in ("size", "exists", "notexists", "body", "currentdate", "envelope"):
            out.append(c)
            continue
        name, tag, value = c
        t = (name,) if isinstance(name, str) else tuple(name)
        t += (tag,)
        t += (value,) if isinstance(value, str) else tuple(value)
        out.append(t)
    if "Dev_CommaSplitsValue" in devs:
        out = [tuple(_split(c)) for c in out]
    return out


def readback_acts(acts, devs=()):
    out = [tuple(str(x) if isinstance(x, int) else x for x in a) for a in acts]
    if "Dev_CommaSplitsValue" in devs:
        out = [tuple(_split(a)) for a in out]
    return out


def run(prop, tier, seed):
    t0 = time.time()
    conds, acts = spaces(tier, prop)
    out, res = tlc_defs(conds, acts, pairs=(tier == "thorough"))
    machinery = []
    if res["error"] or res["violated"]:
        machinery.append("TLC FilterDefs: %s %s" % (res["error"], res["violated"]))
    tasks = []
    for d, skel, exts, skeltree in out:
        if prop == "C19":
            # the quantifier's forms: no quoting-hostile values, value-less action tags
            if any(a["k"] == "vacation" for a in d["acts"]):
                continue
        tasks.append((d, skel, exts, skeltree, prop))
    probs, infos = [], []
    with mp.Pool(14) as pool:
        for ps, info in pool.imap(run_def, tasks, chunksize=100):
            probs.extend(ps)
            infos.append(info)
    # code -> spec: TLC judges the observed token sequences (strict validity)
    st = {"distinct": 0, "states": 0}
    if prop == "C06":
        scripts = [i["text"].encode("utf-8") for i in infos if i]
        uniq = list(dict.fromkeys(scripts))
        devs = findings.open_devs("SieveGrammar")
        lexed = [lexref.lex(s) for s in uniq]
        outs_all, st2 = ptrace.tlc_judge([l[0] for l in lexed], [])
        from . import pengine
        treeof = {}
        for s, outs in zip(uniq, outs_all):
            ref = [q for q in outs if not q[0]][0] if outs else None
            if ref is not None and ref[1] == "acc":
                # the filter's own tree: top-level nodes that are not the require
                treeof[s.decode("utf-8")] = [n for n in pengine.nest(ref[6], raw=True) if n[0] != "require"]
            if ref is None or ref[1] != "acc" or ref[5]:
                probs.append({"prop": "C06", "what": "generated script is not strictly valid for the reference recogniser: %s %s %s"
                                                     % (ref[1:4] if ref else None, "irregular: %s" % ref[5] if ref else "", ""),
                              "text": s.decode("utf-8")})
        st = {"distinct": st2["distinct"], "states": st2["states"]}
        # a token-level difference is only a violation if the *trees* differ too (tags may be printed in any order)
        kept = []
        for pr in probs:
            if pr.get("tokens_differ") and pr.get("text") in treeof and \
                    pengine.loosen(treeof[pr["text"]]) == pengine.loosen(pengine.nest(pr["skeltree"], raw=False)):
                continue
            kept.append(pr)
        probs = kept
    mine = [p for p in probs if p["prop"] in (prop, "both")]
    devs = findings.open_devs("FilterDefs")
    bydev = findings.by_dev()
    known, viols = {}, []
    for p in mine:
        ex = p.get("expl")
        ex = [ex] if isinstance(ex, str) else ex
        if ex and all(x in devs for x in ex):
            for x in ex:
                known.setdefault(x, []).append(p)
        else:
            viols.append(p)
    rc = 0
    for m in machinery:
        print("MACHINERY-FAILURE " + m)
        rc = 2
    for dname, rs in sorted(known.items()):
        print("KNOWN-FINDING: property=%s %s (%s): %s [%d cases]" % (prop, bydev[dname]["id"], dname, bydev[dname]["what"], len(rs)))
    os.makedirs(os.path.join(VERIF, "build", "replay"), exist_ok=True)
    seen, k = set(), 0
    for p in viols:
        key = " ".join(p["what"].split(" ")[:5])
        if key in seen or k >= 14:
            continue
        seen.add(key)
        path = os.path.join(VERIF, "build", "replay", "%s_%d.json" % (prop, k))
        with open(path, "w") as fp:
            json.dump({"property": prop, "case": p}, fp, indent=1, default=str, ensure_ascii=False)
        print("VIOLATION property=%s replay=%s  # %s | %s" % (prop, path, p["what"][:260], p.get("text", "")[-160:].replace("\n", "\\n")))
        k += 1
    if viols and rc == 0:
        rc = 1
    cov = {"states": res["distinct"] + st["distinct"], "transitions": res["states"] + st["states"],
           "traces_validated_against_impl": len(tasks),
           "samples": [{"definition": out[i][0], "skeleton": out[i][1], "extensions": out[i][2]} for i in (0, len(out) // 2) if out],
           "exhaustive": True, "evaluations": len(tasks), "distinct_nontrivial": len(tasks),
           "rule": "every single-condition x single-action definition (both match types) and a family of two-condition/two-action "
                   "definitions over %d conditions x %d actions drawn from the documented forms with value classes" % (len(conds), len(acts)),
           "known_finding_cases": {d: len(v) for d, v in known.items()}, "violating_cases": len(viols),
           "trusted_base": ["harness/lexref.py", "harness/render.py value classes", "api_cond/api_act: abstract definition -> API tuples"]}
    evidence.write(prop, tier, seed, t0, cov, len(viols), ["value classes stand for all values of their kind"])
    return rc
