import sys, json, collections, time, random
sys.path.insert(0, "/verif")
from harness import ms_corpus as C, ms_impl as M
from harness.tlc import run_tlc

def tlc_reader(replies, liveness=False):
    defs = "MCReplies == <<%s>>\n" % ",\n ".join(C.to_tla(r) for r in replies)
    cfg = ("SPECIFICATION %s\nCONSTANTS\n Replies <- MCReplies\n Cap = 0\n ExploreEvery = 1\n EnabledDevs = {}\n"
           "INVARIANT Emit\nINVARIANT SegmentationFree\nINVARIANT LiteralExact\nINVARIANT DataNeverProtocol\n"
           "INVARIANT NoEarlyReturn\nINVARIANT NeverStuck\nCHECK_DEADLOCK FALSE\n" % ("FairSpec" if liveness else "Spec"))
    if liveness:
        cfg += "PROPERTY Terminates\n"
    got = {}
    res = run_tlc("reader", "MSReader", defs, cfg, on_value=lambda v: got.__setitem__(v[0], v), workers=8)
    return got, res

if __name__ == "__main__":
    reps = C.all_replies(full=False)
    t = time.time()
    got, res = tlc_reader(reps)
    print(len(reps), len(got), {k: res[k] for k in ("states", "distinct", "depth", "wall", "error", "violated")})
    print("\n".join(res["log"][-25:]) if res["error"] or res["violated"] else "")
    print(bytes(got[1][1]), bytes(got[len(reps)][1]))

SENT1 = b"OK\r\n"
SENT2 = b'"z"\r\nOK\r\n'

def ops_for(r):
    fam = r["fam"]
    if fam == "status":
        ops = [("havespace", ("s", 10)), ("putscript", ("s", "keep;\r\n")), ("deletescript", ("s",)),
               ("setactive", ("s",)), ("checkscript", ("keep;",)), ("renamescript", ("s", "t"))]
        if r["st"] != "OK":
            ops += [("getscript", ("s",)), ("listscripts", ())]
        return ops
    if fam == "list":
        return [("listscripts", ())]
    if fam == "get":
        return [("getscript", ("s",))]
    return [("capability", ())]

def run_case(r, wire, op, args, plan, cap):
    replies = [wire, SENT1, SENT2]
    def server(w, sock):
        return replies.pop(0) if replies else None
    c, s = M.connected_client(server, plan=plan, cap=cap)
    res = M.call(getattr(c, op), *args)
    first_left = s.leftover()
    obs = {"res": res, "errcode": c.errcode, "errmsg": c.errmsg, "left": first_left, "nwrites": len(s.writes)}
    if not (res[0] in ("hang",)):
        s.plan = lambda b: [len(b)]; s.cap = 0
        obs["s1"] = M.call(c.havespace, "s", 1)
        obs["s2"] = M.call(c.listscripts)
        obs["buf"] = M.private_buffer(c)
    return obs

def expected(r, op):
    kind, code, text = C.expect_status(r)
    if kind == "bye":
        return ("error",)
    if op in ("havespace", "putscript", "deletescript", "setactive", "checkscript", "renamescript"):
        return ("ret", kind == "ok")
    if op == "listscripts":
        return ("ret", C.expect_list(r)) if kind == "ok" else ("ret", None)
    if op == "getscript":
        return ("ret", C.expect_get(r)) if kind == "ok" else ("ret", None)
    if op == "capability":
        return ("retcaps",) if kind == "ok" else ("ret", None)

def check_unseg(r, op, obs):
    """C09/C17 judgement on the unsegmented run -> list of problems"""
    exp = expected(r, op)
    res = obs["res"]
    probs = []
    kind, code, text = C.expect_status(r)
    if exp[0] == "error":
        if res[0] != "error":
            probs.append("BYE must raise Error, got %r" % (res,))
        return probs
    if exp[0] == "retcaps":
        if res[0] != "ret" or res[1] is None:
            probs.append("capability: %r" % (res,))
    elif op == "getscript" and exp[1] is not None:
        if res[0] != "ret" or not isinstance(res[1], str) or C.norm_body(res[1]) != exp[1]:
            probs.append("getscript: want %r got %r" % (exp[1], res))
    elif res[0] != "ret" or res[1] != exp[1]:
        probs.append("result: want %r got %r" % (exp[1], res))
    if kind == "no" and res[0] == "ret":
        if obs["errcode"] not in (code, code + (b" " if r["cargs"] else b"")) and not (obs["errcode"] or b"").startswith(code + b" ") and obs["errcode"] != code:
            probs.append("errcode: want %r got %r" % (code, obs["errcode"]))
        if text is not None and obs["errmsg"] != text:
            probs.append("errmsg: want %r got %r" % (text, obs["errmsg"]))
    if obs.get("s1") != ("ret", True) or obs.get("s2") != ("ret", (None, ["z"])):
        probs.append("sentinels: %r %r" % (obs.get("s1"), obs.get("s2")))
    if obs["left"]:
        probs.append("leftover %r" % obs["left"])
    return probs

if __name__ == "__main__":
    grp = collections.OrderedDict()
    n = 0
    for i, r in enumerate(reps):
        wire = bytes(got[i + 1][1])
        for op, args in ops_for(r):
            obs = run_case(r, wire, op, args, None, 0)
            n += 1
            for p in check_unseg(r, op, obs):
                key = (r["fam"], op if r["fam"] != "status" else "*", p.split(":")[0], r["st"], bool(r["code"]), r["text"]["e"], len(r["cargs"]))
                grp.setdefault(key, []).append((r["tag"], op, wire, p))
    print(n, "cases")
    for k, v in sorted(grp.items(), key=lambda kv: -len(kv[1])):
        print(len(v), k, "| e.g.", v[0][1], v[0][2], v[0][3][:150])
