"""Check C08: each client call puts exactly one well-formed command on the wire.

TLC (spec/MSWire.tla) proves the reference encoding self-delimiting and faithful for every value over
a hostile alphabet up to MaxLen symbols (RoundTrip, SelfDelimiting) and prints each value with its
reference encoding.  The harness (i) checks its strict server-side decoder against those pairs,
(ii) passes every value to every argument position of every operation of the real client and decodes
what was written; plus seeded long / look-alike values.
"""
import json
import multiprocessing as mp
import os
import random
import time

from . import evidence, findings, rfc5804
from .tlc import run_tlc

VERIF = os.path.dirname(os.path.dirname(os.path.abspath(__file__)))
SYMBOLS = [b"a", b'"', b"\\", b"\r", b"\n", b"\0", b"{", b"}", b"5", b"+", "é".encode(), b" "]

# (operation, args template with V for the value, expected verb, expected args template)
CASES = [
    ("getscript", ("V",), "GETSCRIPT", ("V",)),
    ("deletescript", ("V",), "DELETESCRIPT", ("V",)),
    ("setactive", ("V",), "SETACTIVE", ("V",)),
    ("havespace", ("V", 7), "HAVESPACE", ("V", 7)),
    ("putscript", ("V", "keep;"), "PUTSCRIPT", ("V", "keep;")),
    ("putscript", ("s", "V"), "PUTSCRIPT", ("s", "V")),
    ("renamescript", ("V", "t"), "RENAMESCRIPT", ("V", "t")),
    ("renamescript", ("s", "V"), "RENAMESCRIPT", ("s", "V")),
    ("checkscript", ("V",), "CHECKSCRIPT", ("V",)),
]


def tlc_values(maxlen):
    defs = "MCSymbols == <<%s>>\n" % ", ".join("<<" + ", ".join(str(x) for x in s) + ">>" for s in SYMBOLS)
    cfg = ("SPECIFICATION Spec\nCONSTANTS\n Symbols <- MCSymbols\n MaxLen = %d\n"
           "INVARIANT Emit\nINVARIANT RoundTrip\nINVARIANT SelfDelimiting\nCHECK_DEADLOCK FALSE\n" % maxlen)
    vals = []
    res = run_tlc("wire", "MSWire", defs, cfg, on_value=lambda v: vals.append((bytes(v[0]), bytes(v[1]))), workers=8)
    return vals, res


def one_call(op, args, debug=False):
    from . import ms_impl as M
    import contextlib
    import io
    writes = []

    def server(w, sock):
        writes.append(w)
        return b'NO "x"\r\n'
    c, s = M.connected_client(server, debug=debug)
    with contextlib.redirect_stdout(io.StringIO()):
        res = M.call(getattr(c, op), *args)
    s._flush() if s.pending else None
    return res, writes


def judge_value(v):
    """v: str -> list of problem records"""
    recs = []
    n = 0
    for op, targs, verb, texp in CASES:
        args = tuple(v if a == "V" else a for a in targs)
        exp = [(v if a == "V" else a) for a in texp]
        exp = [e.encode("utf-8") if isinstance(e, str) else e for e in exp]
        # long values also with the client's debug flag on (the bytes on the wire must not depend on it)
        res, writes = one_call(op, args, debug=(len(v) > 200 or len(v) % 5 == 0))
        n += 1
        wire = b"".join(writes)
        if res[0] == "error" and not wire:
            continue            # refused before writing anything: allowed
        prob = None
        try:
            items = rfc5804.decode(wire)
            cmds = [i for i in items if i[0] == "cmd"]
            if len(items) != 1 or len(cmds) != 1:
                prob = "%d items on the wire, expected exactly one command: %r" % (len(items), items[:3])
            elif cmds[0][1] != verb or cmds[0][2] != exp:
                prob = "decoded %s %r, expected %s %r" % (cmds[0][1], cmds[0][2], verb, exp)
        except rfc5804.Malformed as e:
            prob = "malformed command (%s)" % e
        if res[0] in ("raise", "hang"):
            prob = (prob + "; " if prob else "") + "call raised %s" % (res[1],)
        if prob:
            recs.append({"op": op, "args": repr(args)[:200], "wire": repr(wire[:200]), "problem": prob})
    if len(v) <= 12 and "\0" not in v:
        # history: the value sent as script *content* goes out as the literal w = {n+}CRLF v; a script *name* that is
        # the same octets as w is another value and must still be encoded as such -- in both orders, within one process
        w = "{%d+}\r\n%s" % (len(v.encode("utf-8")), v)
        seq = [("putscript", ("s", v), "PUTSCRIPT", ("s", v)), ("setactive", (w,), "SETACTIVE", (w,)),
               ("getscript", (w,), "GETSCRIPT", (w,)), ("checkscript", (v,), "CHECKSCRIPT", (v,)),
               ("putscript", (w, v), "PUTSCRIPT", (w, v)), ("havespace", (w, 3), "HAVESPACE", (w, 3))]
        for op, args, verb, exp in seq:
            exp = [e.encode("utf-8") if isinstance(e, str) else e for e in exp]
            res, writes = one_call(op, args)
            n += 1
            wire = b"".join(writes)
            if res[0] == "error" and not wire:
                continue
            prob = None
            try:
                items = rfc5804.decode(wire)
                cmds = [i for i in items if i[0] == "cmd"]
                if len(items) != 1 or len(cmds) != 1:
                    prob = "%d items on the wire, expected exactly one command: %r" % (len(items), items[:3])
                elif cmds[0][1] != verb or cmds[0][2] != exp:
                    prob = "decoded %s %r, expected %s %r" % (cmds[0][1], cmds[0][2], verb, exp)
            except rfc5804.Malformed as e:
                prob = "malformed command (%s)" % e
            if prob:
                recs.append({"op": op, "args": repr(args)[:200], "wire": repr(wire[:200]),
                             "problem": "in a sequence of calls (content, then a name made of the content's wire form): " + prob})
    return n, recs


def _work(vs):
    out, n = [], 0
    for v in vs:
        k, r = judge_value(v)
        n += k
        out.extend(r)
    return n, out


def seeded_values(seed, tier):
    rng = random.Random(seed + 8)
    vals = ["", "x", "x" * 1024, "é" * 700, "{5}", "{5+}", "{0}", "{12+}\r\nabc", "a\r\nLOGOUT", "a\"\r\nLOGOUT\r\n",
            "cafe\u0301", "caf\u00e9", "\u212b", "\u2126x", "\u1112\u1161\u11ab", "A\u030a\u0327",   # canonically equivalent but different strings: nothing may normalise them
            "\\", "\\\\", '"', '""', "a\\\"b", "tab\there", "☃" * 50, "{5}x", "x{5}", "line1\nline2", "\0", "a\0b",
            " lead", "trail ", "{", "}", "{+}", "{5+", "\r", "\n", "\r\n", "name with spaces", "ü", "a" * 65536]
    # long values: a hostile symbol placed in filler text, at lengths around the usual thresholds (RFC 5804's
    # 1024-octet note on quoted strings, buffer sizes), so that an encoding rule that depends on the length is met
    lens = [256, 1023, 1024, 1025, 4096, 4097] if tier == "quick" else \
           [255, 256, 257, 511, 512, 1000, 1022, 1023, 1024, 1025, 1026, 2047, 2048, 2049, 4095, 4096, 4097, 8192, 65535, 65537]
    for n in lens:
        for sym in ['"', "\\", "é", "{5}", " "] + (["\t", "☃", "{5+}"] if tier != "quick" else []):
            k = rng.randrange(1, n)
            vals += [sym + "a" * (n - len(sym)), "a" * (n - len(sym)) + sym, "a" * k + sym + "a" * (n - k - len(sym))]
            if n <= 1100:
                vals.append((sym * n)[:n])
    alphabet = ['"', "\\", "\r", "\n", "{", "}", "+", "5", "a", " ", "é", "\0", "\t", "☃"]
    for _ in range(60 if tier == "quick" else 1500):
        k = rng.randrange(1, 40)
        vals.append("".join(rng.choice(alphabet) for _ in range(k)))
    return vals


def run(prop, tier, seed):
    t0 = time.time()
    vals, res = tlc_values(3 if tier == "quick" else 4)
    machinery = []
    if res["error"] or res["violated"]:
        machinery.append("TLC MSWire: %s %s" % (res["error"], res["violated"]))
    # the harness's decoder against the specification's encoder
    for v, enc in vals:
        try:
            got = rfc5804.decode(b"GETSCRIPT " + enc + b"\r\n")
            if got != [("cmd", "GETSCRIPT", [v])]:
                machinery.append("harness decoder disagrees with MSWire!EncStr on %r: %r" % (v, got))
                break
        except rfc5804.Malformed as e:
            machinery.append("harness decoder rejects MSWire!EncStr(%r) = %r: %s" % (v, enc, e))
            break
    strs = []
    for v, enc in vals:
        try:
            strs.append(v.decode("utf-8"))
        except UnicodeDecodeError:
            pass                 # not a text value: cannot be passed to the str API
    strs = sorted(set(strs))
    extra = seeded_values(seed, tier)
    allv = strs + extra
    chunks = [allv[i::28] for i in range(28)]
    n_exec, recs = 0, []
    with mp.Pool(14) as pool:
        for n, r in pool.imap_unordered(_work, chunks):
            n_exec += n
            recs.extend(r)
    rc = 0
    for m in machinery:
        print("MACHINERY-FAILURE " + m)
        rc = 2
    os.makedirs(os.path.join(VERIF, "build", "replay"), exist_ok=True)
    seen, k = set(), 0
    for r in recs:
        key = (r["op"], r["problem"].split(":")[0][:40])
        if key in seen or k >= 12:
            continue
        seen.add(key)
        path = os.path.join(VERIF, "build", "replay", "C08_%d.json" % k)
        with open(path, "w") as fp:
            json.dump({"property": "C08", "case": r}, fp, indent=1)
        print("VIOLATION property=C08 replay=%s  # %s%s wrote %s: %s" % (path, r["op"], r["args"][:60], r["wire"][:80], r["problem"][:160]))
        k += 1
    if recs and rc == 0:
        rc = 1
    cov = {"states": res["distinct"], "transitions": res["states"], "traces_validated_against_impl": n_exec,
           "samples": [{"value": repr(v), "reference_encoding": repr(e)} for v, e in vals[5:8]],
           "exhaustive": True, "evaluations": n_exec, "distinct_nontrivial": len(allv),
           "rule": "every value of up to %d symbols over %r (TLC, exhaustive; text values only for the str API) in every "
                   "argument position of 9 operation/argument cases, plus %d seeded long/look-alike values; the bytes written "
                   "are decoded by a strict RFC 5804 command parser" % (3 if tier == "quick" else 4, [s.decode('utf-8', 'replace') for s in SYMBOLS], len(extra)),
           "values_from_tlc": len(vals), "text_values": len(strs), "violating_cases": len(recs),
           "trusted_base": ["harness/rfc5804.py (cross-checked against MSWire!EncStr on every enumerated value)",
                            "harness/ms_impl.py scripted socket"]}
    evidence.write("C08", tier, seed, t0, cov, len(recs), ["values longer than MaxLen only by the seeded generator"])
    return rc
