"""Checks C01, C02, C03, C07, C18: parser conformance against spec/SieveGrammar.tla.

spec -> code: SieveEnum (TLC, exhaustive per vocabulary slice) enumerates token sequences
with the outcome of the reference path and of every enabled deviation path; each is rendered
and replayed into sievelib.parser.Parser.
code -> spec: scripts that do not come from TLC (the repository's own test scripts, seeded
random scripts and their single-edit mutants, byte-level mutants) are lexed by the
independent lexer and their token traces are judged by TLC (SieveTrace.tla).
"""
import json
import os
import sys
import time
from concurrent.futures import ThreadPoolExecutor

from . import evidence, findings, pengine, slices

VERIF = os.path.dirname(os.path.dirname(os.path.abspath(__file__)))

ALL_WHY = ["unknownCommand", "extNotLoaded", "nonTestAsTest", "testAsCommand", "valueAfterTest", "surplusList", "surplusArg",
           "illTyped", "missingTest", "missingBlock", "blockAfterAction", "missingSemicolon", "unterminated", "bracket",
           "badParam", "tagNotTaken", "tagMisplaced", "surplusTest", "emptyList", "malformedList", "mustFollow",
           "commandExpected"]
SUFFIXES = [" ;", " }", " stop;", " { }", "\nkeep;\n", " ]", " )", ' "x"', " :is", " , true"]

CONF = {
    # prop: (layouts, nlay, nsuf)
    "C01": (["space", "upper", "crlf", "compact", "mixed", "pretty"], 2, 1),
    "C02": (["compact", "crlf", "lines", "mlcomment", "space"], 2, 1),
    "C03": (["space", "pretty", "crlf", "mixed"], 2, 0),
    "C04": (["space", "crlf", "mixed", "mlcomment"], 2, 0),
    "C07": (["space", "upper", "mixed", "lines"], 2, 1),
    "C18": (["lines", "crlf", "mlcomment", "space", "compact"], 2, 2),
}


def plan(prop, tier):
    out = []
    for name, sl in slices.SLICES.items():
        ml = sl[tier]
        if prop == "C07" and name == "gating" and tier == "quick":
            ml = sl["quick"]
        out.append((sl, ml))
    return out


def run(prop, tier, seed, extra_drivers=()):
    t0 = time.time()
    devs = findings.open_devs("SieveGrammar")
    bydev = findings.by_dev()
    layouts, nlay, nsuf = CONF[prop]
    if tier == "thorough":
        nlay = min(len(layouts), nlay + 2)
        nsuf = nsuf + 2 if nsuf else 0
    jobs = plan(prop, tier)
    results = []

    def one(job):
        sl, ml = job
        sl = dict(sl)
        sl["devs"] = devs
        return sl["name"], ml, pengine.run_slice(sl, ml, layouts, nlay, nsuf, SUFFIXES,
                                                 nproc=3 if tier == "quick" else 6,
                                                 tlc_workers=3 if tier == "quick" else 6, roundtrip=(prop == "C04"))

    with ThreadPoolExecutor(max_workers=8 if tier == "quick" else 4) as ex:
        for r in ex.map(one, jobs):
            results.append(r)

    states = trans = parses = lines = 0
    whys, devuse = {}, {}
    per_slice = {}
    known = {}
    viols = []
    machinery = []
    cls_counts = {"acc": 0, "rej": 0, "dc": 0}
    samples = []
    for name, ml, (res, total, recs) in results:
        if res["error"] or res["violated"]:
            machinery.append("slice %s: TLC %s %s" % (name, res["error"], res["violated"]))
        if res["lines"] != res["distinct"]:
            machinery.append("slice %s: %d emitted lines for %d distinct states" % (name, res["lines"], res["distinct"]))
        states += res["distinct"]
        trans += res["states"]
        parses += total.get("parses", 0)
        lines += total.get("lines", 0)
        for k in cls_counts:
            cls_counts[k] += total.get(k, 0)
        for k, v in total.items():
            if k.startswith("why:"):
                whys[k[4:]] = whys.get(k[4:], 0) + v
            if k.startswith("dev:"):
                devuse[k[4:]] = devuse.get(k[4:], 0) + v
        per_slice[name] = {"maxlen": ml, "distinct_states": res["distinct"], "states_generated": res["states"],
                           "depth": res["depth"], "tlc_wall_s": round(res["wall"], 1),
                           "parses": total.get("parses", 0)}
        for r in recs:
            if prop not in r["failed"]:
                continue
            ex = r["expl"]
            if ex and all(d in devs for d in ex):
                for d in ex:
                    known.setdefault(d, []).append(r)
            else:
                viols.append((name, r))
    # extra drivers (trace validation, mutants ...) return dicts merged into the verdict
    extra_cov = {}
    for drv in extra_drivers:
        out = drv(prop, tier, seed, devs)
        states += out.get("states", 0)
        trans += out.get("transitions", 0)
        parses += out.get("parses", 0)
        for d, rs in out.get("known", {}).items():
            known.setdefault(d, []).extend(rs)
        viols.extend(out.get("viols", []))
        machinery.extend(out.get("machinery", []))
        extra_cov[out["name"]] = out.get("coverage", {})
        samples.extend(out.get("samples", []))

    rc = 0
    if machinery:
        for m in machinery:
            print("MACHINERY-FAILURE " + m)
        rc = 2
    for d, rs in sorted(known.items()):
        f = bydev.get(d, {})
        r = min(rs, key=lambda r: len(r.get("text", "")))
        print("KNOWN-FINDING: property=%s %s (%s): %s [%d cases, e.g. %r]" % (
            prop, f.get("id", "?"), d, f.get("what", ""), len(rs), r.get("text", "")[-80:]))
    os.makedirs(os.path.join(VERIF, "build", "replay"), exist_ok=True)
    seen = set()
    nprinted = 0
    for name, r in viols:
        key = (r["failed"][prop].split(":")[0][:40], tuple(r["ref"][1:3]) if "ref" in r else ())
        if key in seen:
            continue
        seen.add(key)
        if nprinted < 12:
            path = os.path.join(VERIF, "build", "replay", "%s_%d.json" % (prop, nprinted))
            with open(path, "w") as fp:
                json.dump({"property": prop, "slice": name, "case": r}, fp, indent=1, ensure_ascii=False, default=str)
            print("VIOLATION property=%s replay=%s  # %s | %r" % (prop, path, r["failed"][prop][:160], r.get("text", "")[-100:]))
            nprinted += 1
    if viols and rc == 0:
        rc = 1
    # samples
    for name, ml, (res, total, recs) in results[:3]:
        for r in recs[:1]:
            samples.append({"slice": name, "text": r["text"][-120:], "reference": r["ref"], "observed": r["obs"],
                            "judgement": r["failed"], "explained_by": r["expl"]})
    samples.append({"slice": "structure", "tokens": ["if", "true", "{", "stop", ";", "}"],
                    "reference": "acc", "note": "every enumerated sequence is rendered under %d layouts" % nlay})
    cov = {"states": states, "transitions": trans, "traces_validated_against_impl": parses,
           "samples": samples[:8], "exhaustive": True,
           "rule": "every token sequence over each vocabulary slice up to MaxLen that has a running path, "
                   "plus the first non-viable token (TLC, exhaustive); rendered under layouts and suffixes",
           "evaluations": parses, "distinct_nontrivial": lines,
           "sequences": lines, "reference_verdicts": cls_counts, "slices": per_slice,
           "reject_classes_reached": whys,
           "reject_classes_never_reached": sorted(set(ALL_WHY) - set(whys)),
           "deviation_paths_enumerated": devuse,
           "layouts": layouts[:nlay] if nlay != 2 else [layouts[0], "one of " + ",".join(layouts[1:])],
           "enabled_deviations": devs, "known_finding_cases": {d: len(rs) for d, rs in known.items()},
           "violating_cases": len(viols), "extra": extra_cov,
           "trusted_base": ["harness/render.py (token -> bytes)", "harness/sieve_impl.py projection of Command objects",
                            "harness/lexref.py (bytes -> tokens, for scripts not generated by TLC)"]}
    evidence.write(prop, tier, seed, t0, cov, len(viols),
                   ["TLC explores every sequence within MaxLen per slice; deeper inputs only by the seeded drivers",
                    "the reference recogniser spec/SieveGrammar.tla is the oracle; dontcare zones of DESIGN 2.5 are not judged"])
    return rc
