"""Entry point: ./check <ID> [--tier quick|thorough] [--replay path].
exit 0 property held on everything explored (KNOWN-FINDING lines allowed); 1 VIOLATION; 2 machinery failure."""
import argparse
import os
import sys
import traceback


def main():
    ap = argparse.ArgumentParser()
    ap.add_argument("prop")
    ap.add_argument("--tier", default=os.environ.get("VERIF_TIER", "quick"), choices=["quick", "thorough"])
    ap.add_argument("--replay")
    a = ap.parse_args()
    seed = int(os.environ.get("VERIF_SEED", "0") or 0)
    prop = a.prop.upper()
    try:
        if prop in ("C01", "C02", "C03", "C04", "C07", "C18"):
            from . import c_parser
            from . import c_parser_extra
            rc = c_parser.run(prop, a.tier, seed, c_parser_extra.drivers(prop))
        elif prop in ("C05", "C09", "C17"):
            from . import c_ms_reader
            rc = c_ms_reader.run(prop, a.tier, seed)
        elif prop in ("C10", "C16"):
            from . import c_ms_session
            rc = c_ms_session.run(prop, a.tier, seed)
        elif prop == "C08":
            from . import c_ms_wire
            rc = c_ms_wire.run(prop, a.tier, seed)
        elif prop in ("C14", "C15"):
            from . import c_ms_store
            rc = c_ms_store.run(prop, a.tier, seed)
        elif prop in ("C11", "C12"):
            from . import c_factory
            rc = c_factory.run(prop, a.tier, seed)
        elif prop in ("C06", "C19"):
            from . import c_defs
            rc = c_defs.run(prop, a.tier, seed)
        elif prop == "C13":
            from . import c_proc
            rc = c_proc.run(prop, a.tier, seed)
        elif prop == "C20":
            from . import c_custom
            rc = c_custom.run(prop, a.tier, seed)
        else:
            print("MACHINERY-FAILURE unknown property %s" % prop)
            rc = 2
    except Exception:
        traceback.print_exc()
        print("MACHINERY-FAILURE exception in check %s" % prop)
        rc = 2
    sys.exit(rc)


if __name__ == "__main__":
    main()
