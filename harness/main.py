"""Entry point: ./check <ID> [--tier quick|thorough] [--replay path].
exit 0 property held on everything explored (KNOWN-FINDING lines allowed); 1 VIOLATION; 2 machinery failure."""
import argparse
import os
import sys
import traceback


def replay(prop, path):
    """Re-run one stored case against the current /repo.  Parser-family cases carry the script text: it is lexed, judged
    by TLC (SieveTrace) and parsed again, and the property's judgement is printed.  Other cases are printed and the
    property's quick check is run again (its scenarios are regenerated deterministically from the specification)."""
    import json
    with open(path) as fp:
        rec = json.load(fp)
    case = rec.get("case", rec)
    print("stored case: %s" % json.dumps(case, ensure_ascii=False, default=str)[:1500])
    if prop in ("C01", "C02", "C03", "C04", "C07", "C18") and isinstance(case.get("text"), str) and "layout" in case or \
            (prop in ("C01", "C02", "C03", "C04", "C07", "C18") and case.get("source")):
        from . import findings, ptrace
        devs = findings.open_devs("SieveGrammar")
        recs, cnt, st = ptrace.judge_scripts([case["text"].encode("utf-8")], devs, roundtrip=(prop == "C04"))
        bad = [r for r in recs if prop in r["failed"] and not (r["expl"] and all(d in devs for d in r["expl"]))]
        for r in recs:
            print("now: failed=%s explained_by=%s observed=%s reference=%s" % (r["failed"], r["expl"], r["obs"], r["ref"]))
        if bad:
            print("VIOLATION property=%s replay=%s" % (prop, path))
            return 1
        print("no violation of %s on this input now" % prop)
        return 0
    import subprocess
    return subprocess.call([os.path.join(os.path.dirname(os.path.dirname(os.path.abspath(__file__))), "check"), prop, "--tier", "quick"])


def main():
    ap = argparse.ArgumentParser()
    ap.add_argument("prop")
    ap.add_argument("--tier", default=os.environ.get("VERIF_TIER", "quick"), choices=["quick", "thorough"])
    ap.add_argument("--replay")
    a = ap.parse_args()
    seed = int(os.environ.get("VERIF_SEED", "0") or 0)
    prop = a.prop.upper()
    if a.replay:
        sys.exit(replay(prop, a.replay))
    try:
        if prop in ("C01", "C02", "C03", "C04", "C07", "C18"):
            from . import c_parser
            from . import c_parser_extra
            rc = c_parser.run(prop, a.tier, seed, c_parser_extra.drivers(prop))
        elif prop in ("C05", "C09", "C17"):
            from . import c_ms_reader
            rc = c_ms_reader.run(prop, a.tier, seed)
        elif prop in ("C10", "C16"):
            from . import c_ms_session
            rc = c_ms_session.run(prop, a.tier, seed)
        elif prop == "C08":
            from . import c_ms_wire
            rc = c_ms_wire.run(prop, a.tier, seed)
        elif prop in ("C14", "C15"):
            from . import c_ms_store
            rc = c_ms_store.run(prop, a.tier, seed)
        elif prop in ("C11", "C12"):
            from . import c_factory
            rc = c_factory.run(prop, a.tier, seed)
        elif prop in ("C06", "C19"):
            from . import c_defs
            rc = c_defs.run(prop, a.tier, seed)
        elif prop == "C13":
            from . import c_proc
            rc = c_proc.run(prop, a.tier, seed)
        elif prop == "C20":
            from . import c_custom
            rc = c_custom.run(prop, a.tier, seed)
        else:
            print("MACHINERY-FAILURE unknown property %s" % prop)
            rc = 2
    except Exception:
        traceback.print_exc()
        print("MACHINERY-FAILURE exception in check %s" % prop)
        rc = 2
    sys.exit(rc)


if __name__ == "__main__":
    main()
