"""Check C13: parsing and filter building are independent of what happened before in the process.

TLC (spec/SieveProc.tla) enumerates every history of calls (scripts from a pool fed to a reused parser
and to other parsers, interleaved with filter-factory operations) up to MaxCalls and checks HistoryFree
on the reference.  Each history is replayed in a forked child of a pristine interpreter; every step's
full outcome is compared with the outcome of the same call made alone in its own pristine child
(parse: verdict, error, position, tree, serialisation, comments attached to commands, the FiltersSet
built from the result; factory: return/exception and rendered text of the same factory calls without
the parses).
"""
import json
import multiprocessing as mp
import os
import sys
import time

from . import evidence, findings
from .tlc import run_tlc, tla_val

VERIF = os.path.dirname(os.path.dirname(os.path.abspath(__file__)))

SCRIPTS = {
    "S1": (b"keep;\n", [], False),
    "S2": (b'require "regex";\nif header :regex "a" "b" { stop; }\n', ["regex"], False),
    "S3": (b'require ["fileinto"];\n# Filter: folder\nfileinto "x";\n', ["fileinto"], False),
    "S4": (b"bogus;\n", [], False),
    "S5": (b'require ["fileinto",', [], False),
    "S6": (b'require "relational";\nif anyof(true,', ["relational"], False),
    "S7": (b"# Filter: half\nif true { keep;", [], True),
    "S8": (b'fileinto "x";\n', [], False),
    "S9": (b'# Filter: spam\n# Description: junk mail\nif true { fileinto "x"; }\n', [], True),
    "S10": (b"# Filter: ok\nif true { keep; }\n# trailing comment\n", [], True),
    "S11": (b'require ["vacation","imap4flags","relational"];\nif header :count "gt" "a" "1" { addflag "x"; vacation :days 2 text:\nbye\n.\n; }\n',
            ["vacation", "imap4flags", "relational"], False),
    "S12": (b'if anyof (header :is "a" "b", not exists ["c"]) { discard; } else { keep; }\n', [], False),
    # capability strings that parametrise other arguments (RFC 5228 2.7.3 "comparator-"): must not stick to the process
    "S13": (b'require ["relational", "comparator-i;ascii-numeric"];\nif header :value "ge" :comparator "i;ascii-numeric" "x" "1" { keep; }\n',
            ["relational", "comparator-i;ascii-numeric"], False),
    "S14": (b'require "relational";\nif header :value "ge" :comparator "i;ascii-numeric" "x" "1" { keep; }\n', ["relational"], False),
}
FSOPS = {"F1": "", "F2": "regex", "F3": "", "F4": "", "F5": "relational"}


def parse_outcome(p, sid):
    from . import sieve_impl as I
    from . import fs_impl as F
    data = SCRIPTS[sid][0]
    o = I.run_parse(p, data)
    out = {"cls": o["cls"], "verdict": o["verdict"], "error": o["error"], "error_pos": list(o["error_pos"]) if o["error_pos"] else None,
           "tree": o["tree"], "exc": o.get("exc")}
    if o["verdict"] is True:
        try:
            out["text"] = I.tosieve_text(p.result)
        except Exception as e:  # noqa
            out["text"] = "raise:" + type(e).__name__
        out["comments"] = [[c.decode("utf-8", "replace") if isinstance(c, bytes) else c for c in cmd.hash_comments] for cmd in p.result]
        try:
            fs = F.sfactory.FiltersSet("x")
            fs.from_parser_result(p)
            out["loaded_set"] = [[f["name"], f.get("description", ""), f["enabled"]] for f in fs.filters] + [list(fs.requires)]
        except Exception as e:  # noqa
            out["loaded_set"] = "raise:" + type(e).__name__
    return out


def fs_outcome(fs, op, k):
    from . import fs_impl as F
    name = "f%d" % k
    if op == "F1":
        r = F.call(fs.addfilter, name, [("Subject", ":contains", "x")], [("keep",)])
    elif op == "F2":
        r = F.call(fs.addfilter, name, [("Subject", ":regex", "a.*b")], [("stop",)])
    elif op == "F3":
        r = F.call(fs.addfilter, name, [("From", ":is", "a@b")], [("fileinto", "Spam")])
    elif op == "F5":
        r = F.call(fs.addfilter, name, [("envelope", ":regex", ["from"], ["x"]), ("address", ":notcontains", "to", "y")], [("discard",)], "allof")
    else:
        r = "render"
    try:
        text = F.render(fs)
    except Exception as e:  # noqa
        text = "raise:" + type(e).__name__
    return {"ret": r, "text": text}


def run_calls(calls):
    """executed in a forked child: list of calls -> list of outcomes"""
    from . import sieve_impl as I
    from . import fs_impl as F
    parsers = {}
    fs = F.sfactory.FiltersSet("h")
    nfs = 0
    outs = []
    for c in calls:
        if c[0] == "parse":
            p = parsers.get(c[1])
            if p is None or c[1] == "fresh":
                p = I.new_parser()
                parsers[c[1]] = p
            outs.append(parse_outcome(p, c[2]))
        else:
            nfs += 1
            outs.append(fs_outcome(fs, c[1], nfs))
    return outs


def in_child(calls):
    r, w = os.pipe()
    pid = os.fork()
    if pid == 0:
        try:
            os.close(r)
            try:
                res = json.dumps(run_calls(calls), default=str)
            except BaseException as e:  # noqa
                res = json.dumps({"child_failed": type(e).__name__ + ": " + str(e)[:200]})
            with os.fdopen(w, "w") as fp:
                fp.write(res)
        finally:
            os._exit(0)
    os.close(w)
    with os.fdopen(r) as fp:
        data = fp.read()
    os.waitpid(pid, 0)
    return json.loads(data) if data else {"child_failed": "no output"}


_memo = {}


def pristine(key_calls):
    k = json.dumps(key_calls)
    if k not in _memo:
        _memo[k] = in_child(key_calls)
    return _memo[k]


def work(hist):
    """-> list of problems for this history"""
    calls = [list(c) for c in hist]
    got = in_child(calls)
    if isinstance(got, dict):
        return [{"what": "history could not be executed: %s" % got, "history": calls}], len(calls)
    probs = []
    fsprefix = []
    for i, c in enumerate(calls):
        if c[0] == "parse":
            exp = pristine([["parse", "fresh", c[2]]])
            exp = exp[0] if isinstance(exp, list) else exp
        else:
            fsprefix.append(c)
            exp = pristine(list(fsprefix))
            exp = exp[-1] if isinstance(exp, list) else exp
        if got[i] != exp:
            diff = [k for k in set(list(got[i].keys()) + list(exp.keys())) if got[i].get(k) != exp.get(k)] if isinstance(exp, dict) else ["?"]
            probs.append({"what": "step %d %s: outcome differs from the pristine one in %s" % (i + 1, c, sorted(diff)),
                          "history": calls, "in_history": {k: got[i].get(k) for k in diff}, "pristine": {k: exp.get(k) for k in diff} if isinstance(exp, dict) else exp})
            break
    return probs, len(calls)


def tlc_histories(maxcalls, scripts, fsops, devs=()):
    defs = ("MCLoads == %s\nMCPending == %s\nMCNeeds == %s\n" % (
        tla_val(("fn", {s: set(SCRIPTS[s][1]) for s in scripts})),
        tla_val(("fn", {s: SCRIPTS[s][2] for s in scripts})),
        tla_val(("fn", {o: FSOPS[o] for o in fsops}))))
    cfg = ("SPECIFICATION Spec\nCONSTANTS\n Scripts = {%s}\n Loads <- MCLoads\n Pending <- MCPending\n Parsers = {\"reused\", \"fresh\"}\n"
           " FsOps = {%s}\n Needs <- MCNeeds\n MaxCalls = %d\n EnabledDevs = {%s}\n"
           "INVARIANT Emit\nINVARIANT HistoryFree\nCHECK_DEADLOCK FALSE\n"
           % (", ".join('"%s"' % s for s in scripts), ", ".join('"%s"' % o for o in fsops), maxcalls,
              ", ".join('"%s"' % d for d in devs)))
    out = []
    res = run_tlc("proc", "SieveProc", defs, cfg, on_value=out.append, workers=8)
    return out, res


def run(prop, tier, seed):
    t0 = time.time()
    # import the library in the parent (pristine: nothing parsed, nothing built) so that children are cheap forks
    from . import sieve_impl, fs_impl  # noqa
    machinery = []
    plans = [(2, list(SCRIPTS), list(FSOPS)), (3, ["S2", "S4", "S7", "S9", "S10", "S11", "S13", "S14"], ["F2", "F4"])] if tier == "quick" else \
            [(3, list(SCRIPTS), list(FSOPS)), (4, ["S2", "S6", "S7", "S9", "S10"], ["F2", "F5", "F4"])]
    hists = []
    states = trans = 0
    for maxcalls, scripts, fsops in plans:
        hs, res = tlc_histories(maxcalls, scripts, fsops)
        if res["error"] or res["violated"]:
            machinery.append("TLC SieveProc: %s %s" % (res["error"], res["violated"]))
        states += res["distinct"]
        trans += res["states"]
        hists.extend(hs)
    # non-vacuity: each deviation, enabled, must break HistoryFree in the model
    for d in ("Dev_FactoryReadsGlobal", "Dev_CommentsSurviveFailure"):
        _, r = tlc_histories(2, ["S2", "S9", "S1"], ["F2"], devs=[d])
        if r["violated"] != "HistoryFree":
            machinery.append("deviation %s does not violate HistoryFree in the model (vacuous invariant?)" % d)
        trans += r["states"]
    probs = []
    ncalls = 0
    with mp.Pool(14) as pool:
        for ps, n in pool.imap_unordered(work, hists, chunksize=50):
            probs.extend(ps)
            ncalls += n
    rc = 0
    for m in machinery:
        print("MACHINERY-FAILURE " + m)
        rc = 2
    os.makedirs(os.path.join(VERIF, "build", "replay"), exist_ok=True)
    seen, k = set(), 0
    for p in probs:
        key = p["what"].split(":")[1][:60] if ":" in p["what"] else p["what"][:60]
        if key in seen or k >= 12:
            continue
        seen.add(key)
        path = os.path.join(VERIF, "build", "replay", "C13_%d.json" % k)
        with open(path, "w") as fp:
            json.dump({"property": "C13", "case": p}, fp, indent=1, default=str, ensure_ascii=False)
        print("VIOLATION property=C13 replay=%s  # %s | history %s | here %s | pristine %s" % (
            path, p["what"], json.dumps(p["history"]), json.dumps(p.get("in_history"), default=str)[:200], json.dumps(p.get("pristine"), default=str)[:200]))
        k += 1
    if probs and rc == 0:
        rc = 1
    cov = {"states": states, "transitions": trans, "traces_validated_against_impl": len(hists),
           "samples": [{"history": hists[i]} for i in (0, len(hists) // 2, len(hists) - 1) if hists],
           "exhaustive": True, "evaluations": ncalls, "distinct_nontrivial": len(hists),
           "rule": "every history of calls up to MaxCalls over (parser in {reused, fresh}) x script pool and factory operations "
                   "(TLC, exhaustive), each executed in a forked child of a pristine interpreter and compared step by step with "
                   "pristine single calls",
           "plans": [[m, s, f] for m, s, f in plans], "script_pool": {k: v[0].decode() for k, v in SCRIPTS.items()},
           "violating_cases": len(probs),
           "trusted_base": ["os.fork gives each history its own copy of a pristine interpreter", "harness/sieve_impl.py, harness/fs_impl.py projections"]}
    evidence.write("C13", tier, seed, t0, cov, len(probs), ["the pool is finite; state shared through anything but the library is out of scope"])
    return rc
