#!/bin/sh
# usage: harness/batch_seeds.sh <dir>...   verify each seed dir on /repo HEAD (scratch worktree), then run its property's
# quick check against a patched scratch worktree (VERIF_REPO); /repo itself is never modified.
for d in "$@"; do
  n=$(basename $d); prop=$(echo $n | cut -c1-3)
  v=$(harness/verify_seed.sh $d 2>&1 | tail -1)
  case "$v" in
    *"demo_unpatched_rc=0 tests_patched_rc=0 demo_patched_rc=1"*) ;;
    *) echo "$n INVALID: $v"; continue;;
  esac
  W=/tmp/batchwt_$$
  git -C /repo worktree add -q --detach $W HEAD || continue
  ( cd $W && git apply $d/patch.diff ) || { echo "$n: apply failed"; git -C /repo worktree remove --force $W; continue; }
  VERIF_REPO=$W ./check $prop --tier quick > /tmp/batch_$n.out 2>&1; rc=$?
  git -C /repo worktree remove --force $W
  nv=$(grep -c "^VIOLATION property=$prop" /tmp/batch_$n.out)
  echo "$n rc=$rc viol=$nv $(grep '^VIOLATION' /tmp/batch_$n.out | head -1 | cut -c1-200) $(grep '^MACHINERY' /tmp/batch_$n.out | head -1 | cut -c1-150)"
  rm -f /tmp/batch_$n.out
done
