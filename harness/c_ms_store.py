"""Checks C14 (emulated rename) and C15 (whole sessions) against spec/MSStore.tla.

spec -> code: TLC enumerates every (initial store, old, new, fault placement) of the emulated rename
(MSRename, exhaustive, C14 predicates model-checked in every intermediate state of the reference
client) and generates whole sessions (MSSessGen: exhaustive short ones, `tlc -simulate` long ones).
code -> spec: each scenario is replayed into the real Client against a scripted server; the observed
trace (commands strictly decoded, replies, results) is judged by TLC (MSStoreTrace), which re-executes
the commands with the specification's server semantics -- the scripted server is checked, not trusted.
"""
import hashlib
import json
import multiprocessing as mp
import os
import random
import tempfile
import time

from . import evidence, findings, rfc5804
from . import ms_corpus as C
from .tlc import run_tlc, BUILD

VERIF = os.path.dirname(os.path.dirname(os.path.abspath(__file__)))
BODIES = {"B1": "keep;\r\n", "B2": "# two\r\nif true {\r\n  stop;\r\n}", "B3": "", "B4": "OK x\r\nNO\r\nBYE\r\n",
          "B5": "redirect \"é@ex.org\";\nkeep;\n", "B6": "discard;\r\n\r\n",
          "B7": "# sep\u2028arators \x0c in\x0bside \u0085 a line\x1c\r\nkeep;\r\n"}
# a script of several read blocks (the client reads 4096 octets at a time), with lines that look like protocol
BODIES["B10"] = "".join("# rule %d\r\nif header :contains \"subject\" \"OK {%d}\" { fileinto \"f%d\"; }\r\nNO\r\n" % (k, k, k)
                        for k in range(90))
# ... and one of more than a mebibyte (no limit applies to what a server may hold)
BODIES["B11"] = "".join("# line %d of a very long script: OK {%d}\r\n" % (k, k) for k in range(30000))
NAMES = ["a", "b", "c"]
STEP_VERB = {"list": "LISTSCRIPTS", "get": "GETSCRIPT", "put": "PUTSCRIPT", "setactive": "SETACTIVE", "delete": "DELETESCRIPT"}


def body_id(content):
    if isinstance(content, bytes):
        content = content.decode("utf-8", "replace")
    n = C.norm_body(content)
    for k, v in BODIES.items():
        if C.norm_body(v) == n:
            return k
    return "?"


# refusals as servers word them: every registered response code (RFC 5804 1.3), none, and a literal text
NO_WIRES = [b'NO (QUOTA/MAXSIZE) "refused: {2} KiB over the {64} KiB limit"\r\n', b'NO "refused"\r\n',
            b'NO (QUOTA/MAXSCRIPTS) "too many scripts"\r\n', b'NO (QUOTA) "quota"\r\n', b'NO (TRYLATER) "busy"\r\n',
            b'NO (NONEXISTENT) "no such script"\r\n', b'NO (ALREADYEXISTS) "exists"\r\n', b'NO (ACTIVE) "active"\r\n',
            b'NO {7}\r\nrefused\r\n', b'NO (WARNINGS) "line 1: OK?"\r\n', b'NO\r\n']


class Double:
    """scripted ManageSieve server: a dict store + choices for what RFC 5804 leaves open + faults"""

    def __init__(self, scripts, active, events):
        self.scripts = dict(scripts)
        self.active = active
        self.events = events
        self.fault = {}          # verb -> kind (first occurrence)
        self.nocode = 0          # which wording a refusal takes
        self.choice = {"refuse": False, "enc": "q", "decor": "plain"}

    def ok(self):
        d = self.choice["decor"]
        return {"plain": b"OK\r\n", "text": b'OK "completed."\r\n', "code": b'OK (WARNINGS) "careful"\r\n'}[d]

    def name(self, n):
        b = n.encode("utf-8")
        if self.choice["enc"] == "l" and n != self.active:
            return b"{%d}\r\n%s" % (len(b), b)
        return rfc5804.quote(b)

    def __call__(self, w, sock):
        try:
            items = rfc5804.decode(w)
        except rfc5804.Malformed:
            self.events.append(["cmd", "MALFORMED", "", ""])
            self.events.append(["reply", "NO", "", [], "NO"])
            return b'NO "malformed"\r\n'
        out = b""
        for it in items:
            if it[0] != "cmd":
                continue
            verb, args = it[1], it[2]
            a = args[0].decode("utf-8", "replace") if args and isinstance(args[0], bytes) else ""
            b = ""
            if verb == "PUTSCRIPT" and len(args) > 1:
                b = body_id(args[1])
            elif verb == "CHECKSCRIPT" and args:
                a, b = "", body_id(args[0])
            elif verb == "RENAMESCRIPT" and len(args) > 1:
                b = args[1].decode("utf-8", "replace")
            self.events.append(["cmd", verb, a, b])
            kind = self.fault.get(verb)
            if kind == "NOSTICKY":
                kind = "NO"              # and stays in force for every later command of this verb
            else:
                self.fault.pop(verb, None)
            if kind is None and self.choice["refuse"] and verb in ("PUTSCRIPT", "HAVESPACE", "CHECKSCRIPT"):
                kind = "NO"
            if kind in ("NO", "BYE", "silence"):
                st = "NO" if kind == "NO" else ("BYE" if kind == "BYE" else "")
                self.events.append(["reply", st, "", [], kind])
                if kind == "NO":
                    out += NO_WIRES[self.nocode % len(NO_WIRES)]
                elif kind == "BYE":
                    out += b'BYE "going down"\r\n'
                    return out
                else:
                    return out or None
                continue
            status, code, data, wire = self.execute(verb, a, b, args)
            if kind == "lost":
                self.events.append(["reply", "", "", [], "lost"])
                return out or None
            if kind == "stall":
                # part of the reply, then silence beyond the read timeout, then the rest
                self.events.append(["reply", "", "", [], "lost"])
                cut = wire.find(b"}\r\n") + 4 if wire.startswith(b"{") else max(1, len(wire) // 2)
                return ("stall", out + wire, len(out) + min(cut, len(wire) - 1))
            self.events.append(["reply", status, code, data, ""])
            out += wire
        return out

    def execute(self, verb, a, b, args):
        s = self.scripts
        if verb == "LISTSCRIPTS":
            lines = b"".join(self.name(n) + (b" ACTIVE" if n == self.active else b"") + b"\r\n" for n in sorted(s))
            return "OK", "", [[n, n == self.active] for n in sorted(s)], lines + self.ok()
        if verb == "GETSCRIPT":
            if a not in s:
                return "NO", "NONEXISTENT", [], b'NO (NONEXISTENT) "no such script {1}"\r\n'
            body = BODIES[s[a]].encode("utf-8")
            return "OK", "", [s[a]], b"{%d}\r\n%s\r\n" % (len(body), body) + self.ok()
        if verb == "PUTSCRIPT":
            s[a] = b
            return "OK", "", [], self.ok()
        if verb == "SETACTIVE":
            if a == "":
                self.active = ""
                return "OK", "", [], self.ok()
            if a not in s:
                return "NO", "NONEXISTENT", [], b'NO (NONEXISTENT) "no such script {1}"\r\n'
            self.active = a
            return "OK", "", [], self.ok()
        if verb == "DELETESCRIPT":
            if a not in s:
                return "NO", "NONEXISTENT", [], b'NO (NONEXISTENT) "no such script {1}"\r\n'
            if a == self.active:
                return "NO", "ACTIVE", [], b'NO (ACTIVE) "active script"\r\n'
            del s[a]
            return "OK", "", [], self.ok()
        if verb == "RENAMESCRIPT":
            if a not in s:
                return "NO", "NONEXISTENT", [], b'NO (NONEXISTENT) "no such script {1}"\r\n'
            if b in s:
                return "NO", "ALREADYEXISTS", [], b'NO (ALREADYEXISTS) "exists"\r\n'
            s[b] = s.pop(a)
            if self.active == a:
                self.active = b
            return "OK", "", [], self.ok()
        return "OK", "", [], self.ok()


def ret_event(op, res, a=""):
    if res[0] == "error":
        return ["ret", "error", ""]
    if res[0] != "ret":
        return ["ret", "raise", res[1][:60]]
    v = res[1]
    if v is True:
        return ["ret", "true", ""]
    if v is False:
        return ["ret", "false", ""]
    if v is None:
        return ["ret", "none", ""]
    if op == "listscripts" and isinstance(v, tuple):
        return ["ret", "list", [v[0] or "", list(v[1])]]
    if op == "getscript" and isinstance(v, str):
        return ["ret", "body", body_id(v)]
    return ["ret", "other", repr(v)[:60]]


def do_call(c, sock, events, op, a, b):
    from . import ms_impl as M
    args = {"listscripts": (), "getscript": (a,), "deletescript": (a,), "setactive": (a,),
            "putscript": (a, BODIES.get(b, "")), "havespace": (a, 100), "renamescript": (a, b),
            "checkscript": (BODIES.get(b, ""),)}[op]
    res = M.call(getattr(c, op), *args)
    left = len(sock.leftover()) + len(M.private_buffer(c) or b"")
    events.append(["leftover", left])
    events.append(ret_event(op, res, a))
    return res


def replay_rename(task):
    from . import ms_impl as M
    scripts0, active0, old, new, fat, fkind, refres, reflog, scripts1, active1, seed = task
    scripts0 = dict(scripts0) if isinstance(scripts0, dict) else {}
    events = [["init", [[k, v] for k, v in sorted(scripts0.items())], active0]]
    d = Double(scripts0, active0, events)
    d.nocode = seed
    rng = random.Random(seed)
    plan = (lambda bts: C_split(bts, rng)) if seed % 3 == 0 else None
    c, s = M.connected_client(d, plan=plan, version=False)
    if seed % 4 == 1:
        # history: this client has listed the scripts *before* another session created the target (or changed the
        # active script); the rename starts from the store as it is now, not from what the client saw earlier
        d.events = []
        saved = (dict(d.scripts), d.active)
        d.scripts.pop(new, None)
        if d.active == new:
            d.active = ""
        do_call(c, s, [], "listscripts", "", "")
        d.scripts, d.active = dict(saved[0]), saved[1]
        d.events = events
    if fat != "none":
        d.fault[STEP_VERB[fat]] = fkind
    events.append(["call", "renamescript_emulated", old, new])
    do_call(c, s, events, "renamescript", old, new)
    cmds = [e[1] for e in events if e[0] == "cmd"]
    return events, {"commands": cmds, "reference_commands": reflog, "final": [d.scripts, d.active],
                    "reference_final": [scripts1 if isinstance(scripts1, dict) else {}, active1], "reference_result": refres}


def C_split(b, rng):
    n = len(b)
    if n < 2:
        return [n]
    k = rng.randrange(1, min(n, 6))
    pts = set(rng.sample(range(1, n), k))
    if rng.randrange(3) == 0:
        pts.add(rng.randrange(1, min(n, 9)))        # a cut inside the first line (its first few octets)
    pts = sorted(pts)
    out, prev = [], 0
    for p in pts:
        out.append(p - prev)
        prev = p
    return out


def replay_session(task):
    from . import ms_impl as M
    init, active0, script, seed = task
    scripts0 = {k: v for k, v in init}
    events = [["init", [[k, v] for k, v in sorted(scripts0.items())], active0]]
    d = Double(scripts0, active0, events)
    rng = random.Random(seed)
    version = seed % 2 == 0          # every other session: a server without RENAMESCRIPT/CHECKSCRIPT (rename is emulated)
    c, s = M.connected_client(d, plan=lambda bts: C_split(bts, rng), version=version)
    if seed % 3 == 1:
        # another Client object connects, after this one, to a server with the *other* capability set and stays open
        other = M.connected_client(lambda w, sock: b'NO "other server"\r\n', version=not version)
    for op, a, b, refuse, enc, decor in script:
        if op == "checkscript" and not version:
            continue
        d.nocode += 1
        d.choice = {"refuse": bool(refuse), "enc": enc if version else "q", "decor": decor}
        events.append(["call", "renamescript_emulated" if (op == "renamescript" and not version) else op, a, b])
        do_call(c, s, events, op, a, b)
    return events, {"version_capability": version}


def validate(traces):
    os.makedirs(BUILD, exist_ok=True)
    got = {}
    stats = {"states": 0, "distinct": 0, "error": None}
    import concurrent.futures as cf
    nb = max(1, min(8, len(traces) // 2000 + 1))
    batches = [list(range(b, len(traces), nb)) for b in range(nb)]

    def one(idx):
        fd, path = tempfile.mkstemp(prefix="sttraces_", suffix=".json", dir=BUILD)
        with os.fdopen(fd, "w") as fp:
            json.dump([{"id": i, "ev": traces[i]} for i in idx], fp)
        g = {}
        try:
            res = run_tlc("storetrace", "MSStoreTrace", "",
                          "SPECIFICATION Spec\nCONSTANTS\n Names = {\"a\"}\n Bodies = {\"B1\"}\nINVARIANT Emit\nCHECK_DEADLOCK FALSE\n",
                          on_value=lambda v: g.__setitem__(v[0], (v[1], v[2])), workers=1, env={"TRACE_FILE": path}, heap="4g")
        finally:
            os.unlink(path)
        return g, res
    with cf.ThreadPoolExecutor(max_workers=nb) as ex:
        for g, res in ex.map(one, batches):
            got.update(g)
            stats["states"] += res["states"]
            stats["distinct"] += res["distinct"]
            if res["error"] or res["violated"]:
                stats["error"] = res["error"] or res["violated"]
    return got, stats


def tlc_rename(tier):
    names = '{"a", "r{2}"}'
    # B3 is the empty script, B4 holds lines that look like status replies, B6 a blank line, B7 exotic line separators
    bodies = '{"B3", "B4", "B7", "B8"}' if tier != "thorough" else '{"B2", "B3", "B4", "B6", "B7", "B8", "B9"}'
    cfg = ("SPECIFICATION RSpec\nCONSTANTS\n Names = %s\n Bodies = %s\n FaultKinds = {\"NO\", \"NOSTICKY\", \"BYE\", \"silence\", \"lost\", \"stall\"}\n"
           "INVARIANT InvNoLoss\nINVARIANT InvNoOverwrite\nINVARIANT InvSuccessPost\nINVARIANT InvFailsCleanly\n"
           "INVARIANT EmitRename\nCHECK_DEADLOCK FALSE\n" % (names, bodies))
    out = []
    res = run_tlc("rename", "MSRename", "", cfg, on_value=out.append, workers=8)
    return out, res


def tlc_sessions(maxops, simulate, seed, ops, big=True):
    # (the store holding the script of more than a mebibyte is left out of the exhaustive thorough enumeration: millions
    # of sessions would each move it; it stays in the sampled and simulated ones)
    defs = ('MCInit == {[scripts |-> ("a" :> "B1") @@ ("b" :> "B2"), active |-> "a"], [scripts |-> <<>>, active |-> ""],'
            ' [scripts |-> ("a" :> "B10") @@ ("b" :> "B2"), active |-> "b"],'
            + (' [scripts |-> ("b" :> "B11") @@ ("a" :> "B1"), active |-> "a"],' if big else "") +
            ' [scripts |-> ("r{2}" :> "B4"), active |-> ""]}\n')
    cfg = ("SPECIFICATION Spec\nCONSTANTS\n Names = {\"a\", \"b\", \"r{2}\"}\n Bodies = {\"B1\", \"B2\", \"B3\", \"B4\", \"B5\", \"B6\", \"B7\", \"B8\", \"B9\", \"B10\"}\n"
           " MaxOps = %d\n InitStores <- MCInit\n OpKinds = {%s}\nINVARIANT Emit\nINVARIANT WellFormed\nCHECK_DEADLOCK FALSE\n"
           % (maxops, ", ".join('"%s"' % o for o in ops)))
    out = []
    res = run_tlc("sessgen", "MSSessGen", defs, cfg, on_value=out.append, workers=8, simulate=simulate,
                  depth=maxops + 1 if simulate else None, seed=seed)
    return out, res


ALLOPS = ["listscripts", "getscript", "deletescript", "setactive", "putscript", "havespace", "renamescript", "checkscript"]
C14_CLAUSES = ("RenameNoLoss", "RenameNoOverwrite", "RenameSuccessPost", "RenameFailsCleanly", "Raises", "ErrorExpected",
               "ContentMangled", "MalformedCommand")
CLAUSES_FOR = {"C14": C14_CLAUSES, "C09": ("ResultMirrorsStatus", "ErrorExpected", "Raises"), "C15": None}
MACHINERY_CLAUSES = ("ServerDoubleWrong",)


def seed_bodies(seed):
    """two more bodies per run, drawn from a hostile vocabulary (no two bodies may normalise to the same lines)"""
    rng = random.Random(seed * 17 + 3)
    for key in ("B8", "B9"):
        while True:
            b = "".join(rng.choice(C.HOSTILE) for _ in range(rng.randrange(2, 12)))
            # (a first line that looks like a literal marker is open finding F09, C17's domain: not drawn here)
            if all(C.norm_body(b) != C.norm_body(v) for k, v in BODIES.items() if k != key) and C.norm_body(b) \
                    and not b.lstrip().startswith("{"):
                BODIES[key] = b
                break


def run(prop, tier, seed, write_evidence=True):
    t0 = time.time()
    seed_bodies(seed)
    devs = findings.open_devs("MSStore")
    bydev = findings.by_dev()
    machinery = []
    states = trans = 0
    if prop in ("C14", "C09"):
        out, res = tlc_rename(tier if prop == "C14" else "quick")
        if res["error"] or res["violated"]:
            machinery.append("TLC MSRename: %s %s" % (res["error"], res["violated"]))
        states += res["distinct"]
        trans += res["states"]
        tasks = [tuple(o) + (seed * 100003 + i,) for i, o in enumerate(out)]
        replay_fn, csize = replay_rename, 100
    else:
        # exhaustive short sessions + simulated long ones
        short, r1 = tlc_sessions(2, None, None, ALLOPS[:6] if tier == "quick" else ALLOPS, big=(tier == "quick"))
        longs, r2 = tlc_sessions(12 if tier == "quick" else 25, 40 if tier == "quick" else 2500, seed + 3, ALLOPS)
        for r in (r1, r2):
            if r["error"] or r["violated"]:
                machinery.append("TLC MSSessGen: %s %s" % (r["error"], r["violated"]))
            states += r["distinct"]
            trans += r["states"]
        rng = random.Random(seed)
        if tier == "quick" and len(short) > 6000:
            rng.shuffle(short)
            short = short[:6000]
        tasks = [(o[0], o[1], o[2], seed * 7 + i) for i, o in enumerate(short + longs)]
        replay_fn, csize = replay_session, 50
        del short, longs
    scen = tasks
    # replay and judge in slices, keeping only what is reported (a thorough run has millions of events)
    viols, known = [], {}
    ntraces, digests, samples = 0, set(), []
    SLICE = 40000
    for lo in range(0, len(tasks), SLICE):
        part = tasks[lo:lo + SLICE]
        traces, infos = [], []
        with mp.Pool(12) as pool:
            for ev, info in pool.imap(replay_fn, part, chunksize=csize):
                traces.append(ev)
                infos.append(info)
        got, st = validate(traces)
        if st["error"]:
            machinery.append("TLC MSStoreTrace: %s" % st["error"])
        if len(got) != len(traces):
            machinery.append("MSStoreTrace judged %d of %d traces" % (len(got), len(traces)))
        states += st["distinct"]
        trans += st["states"]
        ntraces += len(traces)
        for t in traces:
            digests.add(hashlib.md5(json.dumps(t).encode()).digest())
        if traces and len(samples) < 2:
            samples.append({"scenario": list(part[0])[:9], "observed_trace": traces[0], "verdict": got.get(0)})
        for i, ev in enumerate(traces):
            clause, at = got.get(i, ("", 0))
            if not clause:
                continue
            if clause in MACHINERY_CLAUSES:
                machinery.append("%s at event %d of trace %d: %s" % (clause, at, lo + i, json.dumps(ev)[:300]))
                continue
            if CLAUSES_FOR.get(prop) and clause not in CLAUSES_FOR[prop]:
                continue
            rec = {"clause": clause, "at": at, "trace": ev, "scenario": list(part[i])[:9], "info": infos[i]}
            hit = None
            for d in devs:
                f = bydev[d]
                if clause in f.get("clauses", []):
                    hit = d
            if hit:
                known.setdefault(hit, []).append(rec)
            elif len(viols) < 200:
                viols.append(rec)
        del traces, infos, got
    rc = 0
    for m in machinery[:5]:
        print("MACHINERY-FAILURE " + m)
        rc = 2
    for d, rs in sorted(known.items()):
        f = bydev.get(d, {})
        print("KNOWN-FINDING: property=%s %s (%s): %s [%d cases]" % (prop, f.get("id", "?"), d, f.get("what", ""), len(rs)))
    os.makedirs(os.path.join(VERIF, "build", "replay"), exist_ok=True)
    seen, k = set(), 0
    for r in viols:
        key = (r["clause"],)
        if key in seen and k >= 3:
            continue
        if k >= 12:
            break
        seen.add(key)
        path = os.path.join(VERIF, "build", "replay", "%s_%d.json" % (prop, k))
        with open(path, "w") as fp:
            json.dump({"property": prop, "case": r}, fp, indent=1, default=str)
        print("VIOLATION property=%s replay=%s  # clause %s at event %d | %s" % (prop, path, r["clause"], r["at"], json.dumps(r["trace"])[:300]))
        k += 1
    if viols and rc == 0:
        rc = 1
    cov = {"states": states, "transitions": trans, "traces_validated_against_impl": ntraces,
           "samples": samples,
           "exhaustive": prop == "C14", "evaluations": ntraces,
           "distinct_nontrivial": len(digests),
           "rule": ("every initial store x (old,new) x fault step x fault kind of the emulated rename (TLC, exhaustive)" if prop == "C14" else
                    "all sessions of 2 operations (TLC exhaustive) and simulated sessions (tlc -simulate) over 8 operations with server "
                    "choices (refusals, name encodings, OK decorations), replies segmented by a seeded plan"),
           "known_finding_cases": {d: len(v) for d, v in known.items()}, "violating_cases": len(viols),
           "trusted_base": ["harness/ms_impl.py scripted socket", "harness/rfc5804.py strict command decoder",
                            "scripted server double (checked against MSStore!Srv by MSStoreTrace: clause ServerDoubleWrong)"]}
    if write_evidence:
        evidence.write(prop, tier, seed, t0, cov, len(viols),
                       ["script bodies and names from small pools without protocol look-alikes in names (C17 covers those)"])
    return rc if write_evidence else (rc, cov)
