#!/bin/sh
# usage: harness/verify_seed.sh <dir with patch.diff demo.py meta.json> [name]
# Confirms in a scratch worktree of /repo HEAD: demo passes unpatched, suite passes patched, demo fails patched.
S="$1"; N="${2:-$(basename $S)}"
W=/tmp/vseed_$$
git -C /repo worktree add -q --detach $W HEAD || exit 3
res="ok"
( cd $W && PYTHONPATH=$W /venv/bin/python -W ignore $S/demo.py >/tmp/vseed_$$.a 2>&1 ); A=$?
( cd $W && git apply $S/patch.diff ) || res="patch-does-not-apply"
if [ "$res" = ok ]; then
  ( cd $W && /venv/bin/python -m pytest -q -p no:cacheprovider sievelib/tests >/tmp/vseed_$$.t 2>&1 ); T=$?
  ( cd $W && PYTHONPATH=$W timeout 120 /venv/bin/python -W ignore $S/demo.py >/tmp/vseed_$$.b 2>&1 ); B=$?
  echo "$N: demo_unpatched_rc=$A tests_patched_rc=$T demo_patched_rc=$B"
else
  echo "$N: $res"
fi
git -C /repo worktree remove --force $W
rm -f /tmp/vseed_$$.*
