#!/bin/sh
# usage: harness/benign_test.sh <patch.diff> <check ids...>
# A behaviour-preserving change must leave every check silent: applies the patch to a scratch worktree, runs the quick
# checks against it (VERIF_REPO), prints one line per check that is NOT rc=0.
P="$1"; shift
W=/tmp/benignwt_$$
git -C /repo worktree add -q --detach $W HEAD || exit 3
( cd $W && git apply "$P" ) || { echo "$P: patch does not apply"; git -C /repo worktree remove --force $W; exit 3; }
bad=0
for c in "$@"; do
  VERIF_REPO=$W ./check "$c" --tier quick > /tmp/benign_$$_$c.out 2>&1; rc=$?
  if [ $rc -ne 0 ]; then
    bad=$((bad+1))
    echo "ALARM $(basename $(dirname $P))/$(basename $P) $c rc=$rc: $(grep '^VIOLATION\|^MACHINERY' /tmp/benign_$$_$c.out | head -2 | cut -c1-300)"
  fi
  rm -f /tmp/benign_$$_$c.out
done
echo "$(basename $(dirname $P))/$(basename $P): $# checks, $bad alarms"
git -C /repo worktree remove --force $W
