"""Independent RFC 5228 (section 8.1) lexer: bytes -> abstract tokens with byte spans.

Used only to *project* text that TLC did not generate (suite scripts, mutants, factory and
tosieve output) onto the token alphabet of spec/SieveGrammar.tla.  Deliberately written
without looking at sievelib's regular expressions.
Returns (tokens, spans, note): tokens = [(k, v)], spans = [(offset, length, line, col)];
a byte sequence that is no token yields a final ("junk", "") token at its offset.
note: set of irregularities that put the input outside the exercised lexical alphabet
(DESIGN 2.5) -> the verdict is not judged (totality still is).
"""
WS = b" \t\r\n"
ALPHA = b"abcdefghijklmnopqrstuvwxyzABCDEFGHIJKLMNOPQRSTUVWXYZ_"
DIGIT = b"0123456789"
PUNCT = {ord("["): "lb", ord("]"): "rb", ord("("): "lp", ord(")"): "rp",
         ord("{"): "lc", ord("}"): "rc", ord(";"): "semi", ord(","): "comma"}


def _linecol(data, off):
    return data.count(b"\n", 0, off) + 1, off - data.rfind(b"\n", 0, off)


def lex(data):
    toks, spans, note = [], [], set()
    n = len(data)
    i = 0

    def emit(k, v, start, end):
        line, col = _linecol(data, start)
        toks.append((k, v))
        spans.append((start, end - start, line, col))

    while i < n:
        c = data[i]
        if c in WS:
            if c == 13 and not data.startswith(b"\r\n", i):
                note.add("bareCR")
            i += 1
            continue
        if c in (11, 12):
            note.add("vt-ff")
            i += 1
            continue
        if c == ord("#"):
            j = data.find(b"\n", i)
            if j < 0:
                note.add("commentAtEOF")
                i = n
            else:
                i = j + 1
            continue
        if data.startswith(b"/*", i):
            j = data.find(b"*/", i + 2)
            if j < 0:
                emit("junk", "", i, n)
                return toks, spans, note
            i = j + 2
            continue
        if c in PUNCT:
            emit(PUNCT[c], "", i, i + 1)
            i += 1
            continue
        if c == ord('"'):
            j = i + 1
            out = bytearray()
            closed = False
            while j < n:
                d = data[j]
                if d == ord("\\"):
                    if j + 1 >= n:
                        break
                    if data[j + 1] not in b'\\"':
                        note.add("oddEscape")   # RFC 5228: undefined escape, read as the bare character
                    out.append(data[j + 1])
                    j += 2
                elif d == ord('"'):
                    closed = True
                    break
                else:
                    out.append(d)
                    j += 1
            if not closed:
                emit("junk", "", i, n)
                return toks, spans, note
            try:
                v = out.decode("utf-8")
            except UnicodeDecodeError:
                note.add("badUtf8")
                v = out.decode("utf-8", "replace")
            if 0 in out:
                note.add("nul")
            emit("str", v, i, j + 1)
            i = j + 1
            continue
        if data.startswith(b"text:", i):
            # "text:" *(SP/HTAB) (hash-comment / CRLF) lines "." CRLF
            j = i + 5
            while j < n and data[j] in b" \t":
                j += 1
            ok = False
            if j < n and data[j] == ord("#"):
                k = data.find(b"\n", j)
                if k >= 0:
                    j = k + 1
                    ok = True
            elif data.startswith(b"\r\n", j):
                j += 2
                ok = True
            elif data.startswith(b"\n", j):
                j += 1
                ok = True
            if ok:
                lines = []
                end = None
                while j <= n:
                    k = data.find(b"\n", j)
                    if k < 0:
                        ln = data[j:]
                        nxt = n
                    else:
                        ln = data[j:k]
                        nxt = k + 1
                    raw = ln[:-1] if ln.endswith(b"\r") else ln
                    if b"\r" in raw:
                        note.add("bareCR")      # RFC 5228: octet-not-crlf -- a lone CR cannot occur inside a line
                    if raw == b".":
                        end = j + 1
                        if k < 0:
                            note.add("dotAtEOF")
                        break
                    if k < 0:
                        break
                    lines.append(raw[1:] if raw.startswith(b".") else raw)
                    j = nxt
                if end is not None:
                    body = b"\n".join(lines)
                    try:
                        v = body.decode("utf-8")
                    except UnicodeDecodeError:
                        note.add("badUtf8")
                        v = body.decode("utf-8", "replace")
                    emit("ml", v, i, end)
                    i = end
                    continue
            # no complete multi-line string here: "text" is an identifier, and the ':' after it fails below
            # (or starts a tag) -- same reading as spec/SieveLex.tla
        if c in ALPHA:
            j = i + 1
            while j < n and (data[j] in ALPHA or data[j] in DIGIT):
                j += 1
            emit("id", data[i:j].decode("ascii").lower(), i, j)
            i = j
            continue
        if c == ord(":") and i + 1 < n and data[i + 1] in ALPHA:
            j = i + 2
            while j < n and (data[j] in ALPHA or data[j] in DIGIT):
                j += 1
            emit("tag", data[i:j].decode("ascii").lower(), i, j)
            i = j
            continue
        if c in DIGIT:
            j = i + 1
            while j < n and data[j] in DIGIT:
                j += 1
            if j < n and data[j] in b"KMGkmg":
                j += 1
            emit("num", data[i:j].decode("ascii"), i, j)
            i = j
            continue
        emit("junk", "", i, n)
        return toks, spans, note
    return toks, spans, note
