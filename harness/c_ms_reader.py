"""Checks C05 (segmentation), C09 (status mirroring), C17 (names/bodies) against
spec/MSReader.tla + spec/MSClient.tla.

TLC: for every abstract reply of the corpus, explores every delivery schedule of its wire
form through the reference reader (invariants SegmentationFree, LiteralExact,
DataNeverProtocol, NeverStuck; liveness Terminates on a sub-corpus) and prints the wire form
with the set of admissible client outcomes (reference + enabled deviations).
Replay: the wire form is served to the real Client by a scripted socket, unsegmented and under
cut/cap/random schedules, followed by two sentinel operations.
"""
import contextlib
import io
import itertools
import multiprocessing as mp
import os
import random
import time
import zlib

from . import evidence, findings, ms_corpus as C
from .tlc import run_tlc

VERIF = os.path.dirname(os.path.dirname(os.path.abspath(__file__)))
SENT1 = b'"z"\r\nOK\r\n'
SENT2 = b"OK\r\n"
SIMPLE = ("havespace", "putscript", "deletescript", "setactive", "checkscript", "renamescript")
ARGS = {"havespace": ("s", 10), "putscript": ("s", "keep;\r\n"), "deletescript": ("s",), "setactive": ("s",),
        "checkscript": ("keep;",), "renamescript": ("s", "t"), "getscript": ("s",), "listscripts": (),
        "capability": ()}


def tlc_client(replies, devs, liveness=False, workers=8, every=1):
    defs = "MCReplies == <<%s>>\n" % ",\n ".join(C.to_tla(r) for r in replies)
    cfg = ("SPECIFICATION %s\nCONSTANTS\n Replies <- MCReplies\n Cap = 0\n ExploreEvery = %d\n EnabledDevs = {%s}\n"
           "INVARIANT SegmentationFree\nINVARIANT LiteralExact\nINVARIANT DataNeverProtocol\n"
           "INVARIANT NoEarlyReturn\nINVARIANT NeverStuck\nCHECK_DEADLOCK FALSE\n"
           % ("FairSpec" if liveness else "Spec", every, ", ".join('"%s"' % d for d in devs)))
    if liveness:
        cfg += "PROPERTY Terminates\n"
    else:
        cfg += "INVARIANT EmitC\n"
    got = {}
    res = run_tlc("msclient", "MSClient", defs, cfg, on_value=lambda v: got.__setitem__(v[0], v), workers=workers)
    return got, res


def ops_for(r):
    if r["fam"] == "status":
        ops = list(SIMPLE)
        if r["st"] != "OK":
            ops += ["getscript", "listscripts"]
        return ops
    if r["fam"] == "list":
        return ["listscripts"]
    if r["fam"] == "get":
        return ["getscript"]
    return ["capability"]


def run_case(wire, op, plan, cap, before=()):
    """before: (op, wire) pairs executed first on the same connection (history)"""
    from . import ms_impl as M
    replies = [w for _, w in before] + [wire, SENT1, SENT2]

    def server(w, sock):
        return replies.pop(0) if replies else None
    # configuration: a third of the (reply, operation) pairs run with the client's debug flag on -- the same value
    # for every segmentation of one pair, so that outcomes stay comparable
    h = zlib.crc32(wire + op.encode())
    dbg = h % 3 == 0
    if (h // 15) % 7 == 0:
        # history in the process: another client object was dropped by its server in the middle of a literal (its
        # operation fails, correctly); nothing of that may reach this client
        def dropper(w, sock):
            sock.eof = True
            return b"{40}\r\n# old script of someone"
        c0, s0 = M.connected_client(dropper, plan=lambda b: [6, 5, 7])      # the literal arrives in pieces, then EOF
        with contextlib.redirect_stdout(io.StringIO()):
            M.call(c0.getscript, "x")
    c, s = M.connected_client(server, plan=plan, cap=cap, debug=dbg)
    # ... and two fifths with a small Client.read_size (a documented class attribute), so that replies whose length
    # is an exact multiple of it, or that end exactly at a block boundary, occur in every family
    rs = (None, 16, None, 7, None)[(h // 3) % 5]
    if rs:
        c.read_size = rs
    # ... and a quarter with slow delivery: 40 % of the client's read timeout passes (on the clocks the client can
    # read) before every recv() returns -- each segment is in time, a reply in many segments takes long in total
    slow = (h // 11) % 4 == 0
    if slow:
        s.tick = 0.4 * float(getattr(c, "read_timeout", 5) or 5)
        with M.VirtualClock(), contextlib.redirect_stdout(io.StringIO()):
            return _run_case(M, c, s, op, before)
    with contextlib.redirect_stdout(io.StringIO()):
        return _run_case(M, c, s, op, before)


def _run_case(M, c, s, op, before):
    for bop, _ in before:
        M.call(getattr(c, bop), *ARGS[bop])
    res = M.call(getattr(c, op), *ARGS[op])
    obs = {"res": res, "errcode": c.errcode, "errmsg": c.errmsg, "left": s.leftover(),
           "buf": M.private_buffer(c), "nwrites": len(s.writes)}
    if res[0] != "hang":
        s.plan = lambda b: [len(b)]
        s.cap = 0
        obs["s1"] = M.call(c.listscripts)
        obs["s2"] = M.call(c.havespace, "s", 1)
    return obs


def run_connect(wire, plan, cap):
    """connect() itself under segmentation: the greeting is the capability reply `wire`, AUTHENTICATE is answered OK"""
    from . import ms_impl as M
    replies = [b'OK "auth ok"\r\n', SENT1, SENT2]

    def server(w, sock):
        return replies.pop(0) if replies else None
    s = M.FakeSocket(server, plan=plan, cap=cap)
    s.push(wire)
    c = M.ms.Client("h", debug=zlib.crc32(wire) % 3 == 0)
    with contextlib.redirect_stdout(io.StringIO()):
        if (zlib.crc32(wire) // 3) % 2 == 0:
            # history of this very object: an earlier connection died in the middle of a long line (connect fails);
            # the next connect() starts from scratch
            s0 = M.FakeSocket(lambda w, sock: None)
            s0.push(b'"IMPLEMENTATION" "old"\r\nNO "' + b"t" * 600)
            s0.eof = True
            with M.Patched([s0]):
                M.call(c.connect, "user", "pass")
        return _run_connect(M, c, s)


def _run_connect(M, c, s):
    with M.Patched([s]):
        res = M.call(c.connect, "user", "pass")
    obs = {"res": res, "errcode": c.errcode, "errmsg": c.errmsg, "left": s.leftover(), "buf": M.private_buffer(c),
           "nwrites": len(s.writes)}
    for g in ("get_sasl_mechanisms", "has_tls_support", "get_implementation", "get_sieve_capabilities"):
        obs[g] = M.call(getattr(c, g))
    if res[0] != "hang":
        s.plan = lambda b: [len(b)]
        s.cap = 0
        obs["s1"] = M.call(c.listscripts)
        obs["s2"] = M.call(c.havespace, "s", 1)
    return obs


def clean_after(obs):
    return (obs.get("s1") == ("ret", (None, ["z"])) and obs.get("s2") == ("ret", True)
            and not obs["left"] and not obs["buf"])


def match_status(o, obs, op, r):
    """o = [devs, kind, code, msg, leftover]"""
    devs, kind, code, msg, leftover = o
    code, msg = bytes(code), bytes(msg)
    res = obs["res"]
    if kind in ("bye", "error"):
        return res[0] == "error"
    if res[0] != "ret":
        return False
    if not leftover and not clean_after(obs):
        return False
    if kind == "ok":
        if op in SIMPLE:
            return res[1] is True
        return res[1] is not None and res[1] is not False
    # kind == "no"
    if op in SIMPLE:
        if res[1] is not False:
            return False
    elif res[1] is not None:
        return False
    ec = obs["errcode"]
    if code:
        if not (ec == code or (isinstance(ec, bytes) and ec.startswith(code + b" "))):
            return False
    elif ec not in (b"", None):
        return False
    if r["text"]["e"] != "none" and obs["errmsg"] != msg:
        return False
    return True


def judge(r, out, op, obs, level="value"):
    """-> (ok, devs or None, detail): reference outcome matched / deviation outcome matched / nothing"""
    rid, wire, st_outs, list_outs, get_outs = out
    res = obs["res"]
    cands = []
    for so in st_outs:
        if not match_status(so, obs, op, r):
            continue
        if level == "status":
            cands.append(sorted(so[0]))
        elif so[1] == "ok" and op == "listscripts":
            for lo in list_outs:
                want = ((bytes(lo[1][0]).decode("utf-8") if lo[1] else None), [bytes(n).decode("utf-8") for n in lo[2]])
                if res[1] == want:
                    cands.append(sorted(set(so[0]) | set(lo[0])))
        elif so[1] == "ok" and op == "getscript":
            for go in get_outs:
                if isinstance(res[1], str) and C.norm_body(res[1]) == C.norm_body(bytes(go[1])):
                    cands.append(sorted(set(so[0]) | set(go[0])))
        elif so[1] == "ok" and op == "capability":
            if isinstance(res[1], bytes) and res[1] == b"".join(b" ".join(b'"' + bytes(i["v"]) + b'"' for i in l) + b"\r\n" for l in r["lines"]):
                cands.append(sorted(so[0]))
        else:
            cands.append(sorted(so[0]))
    if not cands:
        return False, None
    best = min(cands, key=len)
    return (len(best) == 0), best


def cuts_single(n):
    return [[k] for k in range(1, n)]


def cuts_double(n):
    return [[a, b - a] for a, b in itertools.combinations(range(1, n), 2)]


def random_split(n, rng):
    k = rng.randrange(2, min(n, 8) + 1) if n >= 2 else 1
    pts = sorted(rng.sample(range(1, n), k - 1)) if n >= 2 else []
    out, prev = [], 0
    for p in pts:
        out.append(p - prev)
        prev = p
    return out


_W = {}


def _init(ctx):
    _W.update(ctx)


def _work(task):
    """one reply: unsegmented judgement for every op + schedules for C05"""
    i, r, out, prop, tier, seed = task
    wire = bytes(out[1])
    rng = random.Random(seed * 1000003 + i)
    recs = []
    n_exec = 0
    for op in ops_for(r):
        base = run_case(wire, op, None, 0)
        n_exec += 1
        ok, devs = judge(r, out, op, base, "status" if prop == "C09" else "value")
        if prop in ("C09", "C17"):
            relevant = (prop == "C09") or (op in ("listscripts", "getscript") and r["fam"] in ("list", "get"))
            if relevant and not ok:
                recs.append({"reply": r["tag"], "wire": repr(wire), "op": op, "schedule": "unsegmented",
                             "obs": repr(base), "expl": devs, "what": "result does not mirror the reply"})
            if prop == "C09" and r["fam"] == "status" and op in ("havespace", "getscript", "putscript"):
                # the same reply after earlier failures/successes on the connection: nothing may be stale
                for hist in _W.get("histories", []):
                    o3 = run_case(wire, op, None, 0, before=hist)
                    n_exec += 1
                    ok3, devs3 = judge(r, out, op, o3, "status")
                    if not ok3:
                        recs.append({"reply": r["tag"], "wire": repr(wire), "op": op,
                                     "schedule": "after " + repr(hist), "obs": repr(o3), "expl": devs3,
                                     "what": "result does not mirror the reply (after earlier operations)"})
            if prop == "C17" and relevant:
                plan = random_split(len(wire), rng)
                o2 = run_case(wire, op, (lambda b, p=plan, w=wire: p if b == w else [len(b)]), 0)
                n_exec += 1
                ok2, devs2 = judge(r, out, op, o2)
                if not ok2:
                    recs.append({"reply": r["tag"], "wire": repr(wire), "op": op, "schedule": plan,
                                 "obs": repr(o2), "expl": devs2, "what": "result does not mirror the reply (segmented)"})
            continue
        # C05: differential against the unsegmented run
        n = len(wire)
        scheds = [("cut", c, 0) for c in cuts_single(n)]
        scheds += [("cap", None, c) for c in (1, 2, 3, 7, 64)]
        nrand = 5 if tier == "quick" else 40
        scheds += [("rand", random_split(n, rng), 0) for _ in range(nrand)]
        if n <= 40:
            dd = cuts_double(n)
            if tier == "quick":
                rng.shuffle(dd)
                dd = dd[:25]
            scheds += [("cut2", c, 0) for c in dd]
        if tier == "quick" and r["fam"] == "status" and op not in ("havespace", "getscript"):
            scheds = scheds[::6]      # the simple operations share one code path: thin out
        for kind, plan, cap in scheds:
            o2 = run_case(wire, op, (lambda b, p=plan, w=wire: (p if (p and b == w) else [len(b)])), cap)
            n_exec += 1
            if base["res"][0] == "error":
                # the operation failed with Error: the connection is unusable afterwards, only the failure must agree
                same = o2["res"][0] == "error"
            else:
                same = all(o2.get(k) == base.get(k) for k in ("res", "errcode", "errmsg", "s1", "s2"))
                # octets left unread: socket + client buffer -- comparable only if the client's buffer can be observed
                # (private attribute, best effort); otherwise the sentinels alone reveal leftovers
                if o2["buf"] is not None and base["buf"] is not None:
                    same = same and (len(o2["left"]) + len(o2["buf"]) == len(base["left"]) + len(base["buf"]))
            if not same:
                recs.append({"reply": r["tag"], "wire": repr(wire), "op": op, "schedule": [kind, plan, cap],
                             "obs": repr(o2), "base": repr(base), "expl": devs if (devs and not ok) else None,
                             "what": "result depends on the segmentation"})
            elif not ok and devs is None:
                pass
    if prop == "C05" and r["fam"] == "caps":
        # the operation `connect': greeting (this capability reply) and the AUTHENTICATE answer under every schedule
        base = run_connect(wire, None, 0)
        n_exec += 1
        n = len(wire)
        scheds = [("cut", c, 0) for c in cuts_single(n)][:: (3 if tier == "quick" else 1)]
        scheds += [("cap", None, c) for c in (1, 2, 3, 7, 64)]
        scheds += [("rand", random_split(n, rng), 0) for _ in range(5 if tier == "quick" else 40)]
        keys = ("res", "get_sasl_mechanisms", "has_tls_support", "get_implementation", "get_sieve_capabilities", "s1", "s2")
        for kind, plan, cap in scheds:
            o2 = run_connect(wire, (lambda b, p=plan: (p if p else [len(b)])), cap)
            n_exec += 1
            if any(o2.get(k) != base.get(k) for k in keys):
                recs.append({"reply": r["tag"], "wire": repr(wire), "op": "connect", "schedule": [kind, plan, cap],
                             "obs": repr(o2), "base": repr(base), "expl": None,
                             "what": "result depends on the segmentation"})
    return n_exec, recs


def big_literal_cases(prop, tier, seed):
    """Script bodies far larger than one read (outside TLC's corpus): served as a literal, unsegmented and under a few
    schedules around the read size; compared with the stored body (C17) and with the unsegmented run (C05)."""
    rng = random.Random(seed + 99)
    recs, n = [], 0
    lines = []
    for k in range(260):
        lines.append(rng.choice(["", "# comment line %d" % k, "OK \"looks like a status\"", "NO", "{12}", "keep;",
                                 'if header :contains "subject" "x%d" { fileinto "f"; }' % k, "BYE bye", "é☃ %d" % k]))
    huge = "".join("# line %d of a very long script: OK {%d}\r\n" % (k, k) for k in range(30000))      # > 1 MiB
    for body in ("\r\n".join(lines) + "\r\n", "\n".join(lines[:200]), "x" * 9000 + "\r\n\r\ntail\r\n", huge):
        raw = body.encode("utf-8")
        wire = b"{%d}\r\n" % len(raw) + raw + b"\r\nOK \"done\"\r\n"
        base = run_case(wire, "getscript", None, 0)
        n += 1
        want = C.norm_body(body)
        if base["res"][0] != "ret" or not isinstance(base["res"][1], str) or C.norm_body(base["res"][1]) != want or not clean_after(base):
            if prop == "C17":
                recs.append({"reply": "big literal %d octets" % len(raw), "wire": repr(wire[:60]), "op": "getscript", "schedule": "unsegmented",
                             "obs": repr(base)[:300], "expl": None, "what": "result does not mirror the reply"})
        scheds = [[100], [4096], [4097, 1], [len(wire) - 5], [10, 4096, 4096], [3000, 3000], [1] * 3 + [5000]]
        scheds += [random_split(len(wire), rng) for _ in range(3 if tier == "quick" else 25)]
        if body is huge:
            scheds = [[100], [len(wire) - 5], random_split(len(wire), rng)]
        for plan in scheds:
            for cap in ((0, 4096, 1000) if body is not huge else (0, 65536)):
                o2 = run_case(wire, "getscript", (lambda b, p=plan, w=wire: (p if b == w else [len(b)])), cap)
                n += 1
                same = all(o2.get(k) == base.get(k) for k in ("res", "errcode", "errmsg", "s1", "s2"))
                if not same and prop == "C05":
                    recs.append({"reply": "big literal %d octets" % len(raw), "wire": repr(wire[:60]), "op": "getscript",
                                 "schedule": [plan[:6], cap], "obs": repr(o2)[:300], "base": repr(base)[:200], "expl": None,
                                 "what": "result depends on the segmentation"})
                if prop == "C17" and (o2["res"][0] != "ret" or not isinstance(o2["res"][1], str) or C.norm_body(o2["res"][1]) != want):
                    recs.append({"reply": "big literal %d octets" % len(raw), "wire": repr(wire[:60]), "op": "getscript",
                                 "schedule": [plan[:6], cap], "obs": repr(o2)[:300], "expl": None,
                                 "what": "result does not mirror the reply (segmented)"})
    return n, recs


def big_status_cases(prop, tier, seed):
    """Status replies whose text is far longer than TLC's corpus holds (the reader model is quadratic in the reply
    length): judged by the same rule, MSClient!RefStatus (result by status, errcode = the response code, errmsg = the
    text), unsegmented (C09) and under a few schedules (C05).  RFC 5804 limits *quoted* strings to 1024 octets; a literal
    has no limit, so the long texts are sent as literals (and one quoted text of exactly 1024 octets)."""
    rng = random.Random(seed + 109)
    recs, n = [], 0
    long1 = "".join("line %d: unexpected token near {%d}\r\n" % (k, k) for k in range(1, 40)).encode()
    texts = [("l", long1), ("l", b"y" * 1025), ("l", b"z" * 5000 + b"\r\n"), ("q", b"q" * 1024)]
    for st in ("NO", "OK"):
        for code in (b"", b"QUOTA/MAXSIZE", b"WARNINGS"):
            for enc, text in texts:
                head = st.encode() + (b" (" + code + b")" if code else b"")
                wire = head + (b" {%d}\r\n" % len(text) + text if enc == "l" else b' "' + text + b'"') + b"\r\n"
                r = {"text": {"e": enc}, "st": st}
                o = [[], "no" if st == "NO" else "ok", list(code), list(text), False]
                for op in ("putscript", "havespace", "getscript", "listscripts") if st == "NO" else ("setactive", "checkscript"):
                    base = run_case(wire, op, None, 0)
                    n += 1
                    if prop == "C09" and not match_status(o, base, op, r):
                        recs.append({"reply": "long text %d octets" % len(text), "wire": repr(wire[:70]), "op": op, "schedule": "unsegmented",
                                     "obs": repr(base)[:300], "expl": None, "what": "result does not mirror the reply"})
                    if prop == "C05":
                        for plan in [[len(head) + 3], [1000, 1000], [4096], random_split(len(wire), rng)]:
                            o2 = run_case(wire, op, (lambda b, p=plan, w=wire: (p if b == w else [len(b)])), 0)
                            n += 1
                            if not all(o2.get(k) == base.get(k) for k in ("res", "errcode", "errmsg", "s1", "s2")):
                                recs.append({"reply": "long text %d octets" % len(text), "wire": repr(wire[:70]), "op": op,
                                             "schedule": plan[:6], "obs": repr(o2)[:300], "expl": None,
                                             "what": "result depends on the segmentation"})
    return n, recs


RFC5804_CODES = [b"AUTH-TOO-WEAK", b"ENCRYPT-NEEDED", b"QUOTA", b"QUOTA/MAXSCRIPTS", b"QUOTA/MAXSIZE", b"REFERRAL \"sieve://x\"",
                 b"SASL \"cnNwYXV0aD1h\"", b"TRANSITION-NEEDED", b"TRYLATER", b"ACTIVE", b"NONEXISTENT", b"ALREADYEXISTS",
                 b"TAG \"t9\"", b"WARNINGS", b"X-VENDOR/CODE"]


def coded_status_cases(prop, tier, seed):
    """Every registered response code of RFC 5804 1.3 (plus a vendor one), with a quoted, a literal and no text, as the
    final answer to an ordinary operation *and* to the AUTHENTICATE command of connect(): the same rule as for the corpus,
    MSClient!RefStatus -- False / None, errcode = the code, errmsg = the server's text -- evaluated outside TLC."""
    from . import ms_impl as M
    recs, n = [], 0
    for code in RFC5804_CODES:
        for enc, text in (("q", b"refused by policy"), ("l", b"line 1\r\nline 2"), ("none", b"")):
            tail = b' "' + text + b'"' if enc == "q" else (b" {%d}\r\n" % len(text) + text if enc == "l" else b"")
            wire = b"NO (" + code + b")" + tail + b"\r\n"
            o = [[], "no", list(code.split(b" ")[0]), list(text), False]
            r = {"text": {"e": enc}, "st": "NO"}
            base = run_case(wire, "deletescript", None, 0)
            n += 1
            if not match_status(o, base, "deletescript", r):
                recs.append({"reply": "code %s" % code.decode(), "wire": repr(wire[:70]), "op": "deletescript", "schedule": "unsegmented",
                             "obs": repr(base)[:300], "expl": None, "what": "result does not mirror the reply"})
            # the same reply as the server's verdict on AUTHENTICATE
            replies = [wire, SENT1, SENT2]

            def server(w, sock):
                return replies.pop(0) if replies else None
            s = M.FakeSocket(server)
            s.push(M.CAPS_PLAIN + b"OK\r\n")
            c = M.ms.Client("h")
            with contextlib.redirect_stdout(io.StringIO()), M.Patched([s]):
                res = M.call(c.connect, "user", "pass")
            n += 1
            obs = {"res": res, "errcode": c.errcode, "errmsg": c.errmsg, "left": s.leftover(), "buf": M.private_buffer(c), "s1": ("ret", (None, ["z"])), "s2": ("ret", True)}
            if not match_status(o, obs, "deletescript", r):
                recs.append({"reply": "code %s" % code.decode(), "wire": repr(wire[:70]), "op": "connect", "schedule": "answer to AUTHENTICATE",
                             "obs": repr(obs)[:300], "expl": None, "what": "result does not mirror the reply"})
    return n, recs


def run(prop, tier, seed):
    t0 = time.time()
    devs = findings.open_devs("MSClient")
    bydev = findings.by_dev()
    corpus = C.all_replies(full=(tier == "thorough"), seed=seed)
    outs, res = tlc_client(corpus, devs, every=(3 if tier == "quick" else 1))
    machinery = []
    if res["error"] or res["violated"]:
        machinery.append("TLC MSClient: %s %s" % (res["error"], res["violated"]))
    if len(outs) != len(corpus):
        machinery.append("TLC printed %d of %d replies" % (len(outs), len(corpus)))
    states, trans = res["distinct"], res["states"]
    live = None
    if prop == "C05":
        sub = corpus[::9] if tier == "quick" else corpus[::3]
        _, lres = tlc_client(sub, devs, liveness=True, workers=4)
        live = {"replies": len(sub), "distinct": lres["distinct"], "error": lres["error"], "violated": lres["violated"]}
        if lres["error"] or lres["violated"]:
            machinery.append("TLC MSClient liveness: %s %s" % (lres["error"], lres["violated"]))
        states += lres["distinct"]
        trans += lres["states"]
    tasks = [(i, r, outs[i + 1], prop, tier, seed) for i, r in enumerate(corpus) if (i + 1) in outs]
    n_exec = 0
    recs = []
    def wire_of(tag):
        for i, r in enumerate(corpus):
            if r["tag"] == tag and (i + 1) in outs:
                return bytes(outs[i + 1][1])
        raise KeyError(tag)
    hists = [[("deletescript", wire_of("NO/QUOTA/MAXSIZE/q"))], [("putscript", wire_of("NO/-/q"))],
             [("setactive", wire_of("OK/WARNINGS/q")), ("deletescript", wire_of("NO/NONEXISTENT/q"))]]
    with mp.Pool(14, initializer=_init, initargs=({"histories": hists},)) as pool:
        for n, rs in pool.imap_unordered(_work, tasks, chunksize=4):
            n_exec += n
            recs.extend(rs)
    if prop in ("C05", "C17"):
        nb, rb = big_literal_cases(prop, tier, seed)
        n_exec += nb
        recs.extend(rb)
    if prop in ("C05", "C09"):
        nb, rb = big_status_cases(prop, tier, seed)
        n_exec += nb
        recs.extend(rb)
    if prop == "C09":
        nb, rb = coded_status_cases(prop, tier, seed)
        n_exec += nb
        recs.extend(rb)
    known, viols = {}, []
    for r in recs:
        ex = r["expl"]
        if ex and all(d in devs for d in ex):
            for d in ex:
                known.setdefault(d, []).append(r)
        else:
            viols.append(r)
    rc = 0
    for m in machinery:
        print("MACHINERY-FAILURE " + m)
        rc = 2
    for d, rs in sorted(known.items()):
        f = bydev.get(d, {})
        print("KNOWN-FINDING: property=%s %s (%s): %s [%d cases, e.g. %s %s]" % (
            prop, f.get("id", "?"), d, f.get("what", ""), len(rs), rs[0]["op"], rs[0]["wire"][:70]))
    os.makedirs(os.path.join(VERIF, "build", "replay"), exist_ok=True)
    import json
    seen = set()
    k = 0
    for r in viols:
        key = (r["op"] if r["op"] not in SIMPLE else "simple", r["what"], r["reply"].split(":")[0][:12])
        if key in seen or k >= 12:
            continue
        seen.add(key)
        path = os.path.join(VERIF, "build", "replay", "%s_%d.json" % (prop, k))
        with open(path, "w") as fp:
            json.dump({"property": prop, "case": r}, fp, indent=1, default=str)
        print("VIOLATION property=%s replay=%s  # %s: %s %s schedule=%s obs=%s" % (
            prop, path, r["what"], r["op"], r["wire"][:80], r["schedule"], r["obs"][:200]))
        k += 1
    if viols and rc == 0:
        rc = 1
    samples = [{"reply": corpus[i]["tag"], "wire": repr(bytes(outs[i + 1][1])),
                "admissible_status_outcomes": outs[i + 1][2]} for i in (0, len(corpus) // 2, len(corpus) - 1) if (i + 1) in outs]
    cov = {"states": states, "transitions": trans, "traces_validated_against_impl": n_exec, "samples": samples,
           "exhaustive": True, "evaluations": n_exec, "distinct_nontrivial": len(corpus),
           "rule": "abstract replies generated from the RFC 5804 response grammar (status x code x text encodings, "
                   "listings, literal bodies, capability blocks); TLC explores every delivery schedule of each wire form "
                   "through the reference reader; replay serves it to the real client unsegmented"
                   + (", under every single cut, sampled/all double cuts, recv caps 1/2/3/7/64 and seeded random splits" if prop == "C05" else ""),
           "replies": len(corpus), "liveness": live, "enabled_deviations": devs,
           "known_finding_cases": {d: len(v) for d, v in known.items()}, "violating_cases": len(viols),
           "trusted_base": ["harness/ms_impl.py scripted socket", "harness/ms_corpus.py reply generator"]}
    if prop == "C09":
        # NO / BYE / silence at each step of the multi-step operation (emulated rename): judged by MSStoreTrace
        from . import c_ms_store
        rc2, cov2 = c_ms_store.run("C09", tier, seed, write_evidence=False)
        rc = max(rc, rc2)
        cov["multi_step_rename"] = {k: cov2[k] for k in ("states", "traces_validated_against_impl", "violating_cases")}
        cov["states"] += cov2["states"]
        cov["transitions"] += cov2["transitions"]
        cov["traces_validated_against_impl"] += cov2["traces_validated_against_impl"]
        viols = viols + [None] * cov2["violating_cases"]
    evidence.write(prop, tier, seed, t0, cov, len(viols),
                   ["the corpus is finite: reply shapes outside it are not explored",
                    "literals in data lines only as first item of a line"])
    return rc
