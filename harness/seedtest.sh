#!/bin/sh
# usage: harness/seedtest.sh <patch> <check ids...>
# applies the patch to a scratch worktree of /repo HEAD (never to /repo itself), runs the quick checks against it
# through VERIF_REPO, removes the worktree.
P="$1"; shift
W=/tmp/seedwt_$$
git -C /repo worktree add -q --detach $W HEAD || exit 3
( cd $W && git apply "$P" ) || { echo "patch does not apply"; git -C /repo worktree remove --force $W; exit 3; }
for c in "$@"; do
  printf "== %s: " "$c"
  VERIF_REPO=$W ./check "$c" --tier quick > /tmp/seedtest_$$_$c.out 2>&1; rc=$?
  echo "rc=$rc  $(grep -c '^VIOLATION' /tmp/seedtest_$$_$c.out) violations"
  grep '^VIOLATION' /tmp/seedtest_$$_$c.out | head -3 | cut -c1-260
  grep '^MACHINERY' /tmp/seedtest_$$_$c.out | head -3
  rm -f /tmp/seedtest_$$_$c.out
done
git -C /repo worktree remove --force $W
