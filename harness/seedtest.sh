#!/bin/sh
# usage: harness/seedtest.sh <patch> <check ids...>   applies patch to /repo, runs checks (quick), reverts.
P="$1"; shift
git -C /repo apply "$P" || { echo "patch does not apply"; exit 3; }
for c in "$@"; do
  printf "== %s: " "$c"
  ./check "$c" --tier quick > /tmp/seedtest_$c.out 2>&1; rc=$?
  echo "rc=$rc  $(grep -c '^VIOLATION' /tmp/seedtest_$c.out) violations"
  grep '^VIOLATION' /tmp/seedtest_$c.out | head -3 | cut -c1-260
  grep '^MACHINERY' /tmp/seedtest_$c.out | head -3
done
git -C /repo checkout -- .
