"""Checks C12 (editing operations = ordered uniquely-named list) and C11 (save / load round trip)
against spec/FiltersSet.tla.  TLC enumerates every operation sequence (exhaustive up to MaxOps from
several initial sets; tlc -simulate for long ones) with the return value and state after each step;
the same calls are made on a real FiltersSet (for C11 under several naming / marker configurations,
`reload' being the real render -> parse -> from_parser_result) and its projection is compared step
by step."""
import json
import multiprocessing as mp
import os
import time

from . import evidence, findings
from .tlc import run_tlc, tla_val

VERIF = os.path.dirname(os.path.dirname(os.path.abspath(__file__)))

NAMINGS = {
    "plain": {"names": {"N1": "rule one", "N2": "second", "N3": "third", "NX": "ghost"}, "descs": {"d": "my description"},
              "prefixes": None},
    "nasty": {"names": {"N1": "règle d'été #1", "N2": "Description: looks like the other marker", "N3": "a  b\tc ☃",
                        "NX": "ghost ü"},
              "descs": {"d": "desc with # hash, Filter: other marker, é and \"quotes\""}, "prefixes": None},
    "meta": {"names": {"N1": "lists (work)", "N2": "a+b* [x]", "N3": "^$.|?", "NX": "ghost"},
             "descs": {"d": "what? (really) [yes] a.b*c+ \\d $1"}, "prefixes": ("# [Filter] ", "#* (about)? ")},
    # marker prefixes with non-ASCII characters (their length in characters and in UTF-8 octets differ)
    "intl": {"names": {"N1": "courrier", "N2": "règle 2", "N3": "→ x", "NX": "ghost"},
             "descs": {"d": "détail du filtre"}, "prefixes": ("# Règle : ", "# Détail → ")},
    # the same names handed to the API as UTF-8 bytes (all name arguments / only the `new name' arguments)
    "bytes": {"names": {"N1": "rule one", "N2": "règle d'été", "N3": "third ☃", "NX": "ghost"}, "descs": {"d": "my description"},
              "prefixes": None, "api": "bytes"},
    "mixed": {"names": {"N1": "rule one", "N2": "règle d'été", "N3": "third ☃", "NX": "ghost"}, "descs": {"d": "my description"},
              "prefixes": None, "api": "mixed"},
    # names that are different strings but canonically equivalent (NFC / NFD): they are different filters
    "nfd": {"names": {"N1": "Caf\u00e9", "N2": "Cafe\u0301", "N3": "Re\u0301union \u212b", "NX": "\u1112\u1161\u11ab"},
            "descs": {"d": "de\u0301tail \u2126"}, "prefixes": None},
    "custom": {"names": {"N1": "Filter: old style", "N2": "b # D-like", "N3": "ünï", "NX": "ghost"},
               "descs": {"d": "Description: old style text"}, "prefixes": ("# N: ", "# D: ")},
}


ALLOPS = ("add", "update", "replace", "remove", "enable", "disable", "move", "reload")


def tlc_histories(maxops, initfs, names=("N1", "N2"), simulate=None, seed=None, depth=None, ops=ALLOPS, defs_=("D1", "D2")):
    cfg = ("SPECIFICATION Spec\nCONSTANTS\n Names = {%s}\n Unknown = \"NX\"\n Defs = {%s}\n Descs = {\"\", \"d\"}\n"
           " MaxOps = %d\n InitFs <- MCInitFs\n Ops = {%s}\n EnabledDevs = {}\n"
           "INVARIANT Emit\nINVARIANT UniqueNames\nINVARIANT StepProps\nCHECK_DEADLOCK FALSE\n"
           % (", ".join('"%s"' % n for n in names), ", ".join('"%s"' % x for x in defs_), maxops, ", ".join('"%s"' % o for o in ops)))
    defs = "MCInitFs == %s\n" % tla_val([list(x) for x in initfs])
    out = []
    res = run_tlc("fset", "FiltersSet", defs, cfg, on_value=out.append, workers=8, simulate=simulate, seed=seed, depth=depth)
    return out, res


def run_history(task):
    from . import fs_impl as F
    hist, initfs, naming_key, prop = task
    nm = NAMINGS[naming_key]
    N = nm["names"]
    pre = nm["prefixes"]
    F.TWINS.clear()
    fs = F.sfactory.FiltersSet("t", *pre) if pre else F.sfactory.FiltersSet("t")
    for n, d in initfs:
        r0 = F.call(fs.addfilter, N[n], *F.DEFS[d])
        if r0 != "None":
            return [{"prop": prop if prop in ("C11", "C12") else "C12", "step": -1,
                     "what": "building the initial set: addfilter(%r) gave %s" % (N[n], r0)}], 0
    N_str = N
    api = nm.get("api")
    B = lambda x: x.encode("utf-8") if isinstance(x, str) else x          # noqa: E731
    if api == "bytes":
        N = {k: B(v) for k, v in N_str.items()}
    N2 = {k: B(v) for k, v in N_str.items()} if api in ("bytes", "mixed") else N     # `new name' arguments
    probs = []
    for k, (op, ret, after) in enumerate(hist):
        kind = op[0]
        reloadinfo = None
        if kind == "add":
            got = F.call(fs.addfilter, N[op[1]], *F.DEFS[op[2]])
        elif kind == "update":
            got = F.call(fs.updatefilter, N[op[1]], N2[op[2]], *F.DEFS[op[3]])
        elif kind == "replace":
            try:
                content = fs.getfilter(N[op[2]])
            except Exception as e:  # noqa
                content = None
            got = F.call(fs.replacefilter, N[op[1]], content, N2[op[3]] if op[3] else None,
                         nm["descs"][op[4]] if op[4] else None)
        elif kind == "remove":
            got = F.call(fs.removefilter, N[op[1]])
        elif kind == "enable":
            got = F.call(fs.enablefilter, N[op[1]])
        elif kind == "disable":
            got = F.call(fs.disablefilter, N[op[1]])
        elif kind == "move":
            got = F.call(fs.movefilter, N[op[1]], op[2])
        else:  # reload
            before_proj = F.project(fs)
            before_req = list(fs.requires)
            text1 = F.render(fs)
            fs2, prob = F.reload(fs, pre)
            got = "None"
            if prob:
                probs.append({"prop": "C11", "step": k, "what": prob, "text": text1[-300:]})
                break
            text2 = F.render(fs2)
            fs3, prob = F.reload(fs2, pre)
            if prob:
                probs.append({"prop": "C11", "step": k, "what": "second " + prob, "text": text2[-300:]})
                break
            text3 = F.render(fs3)
            if text3 != text2:
                probs.append({"prop": "C11", "step": k, "what": "rendering the reloaded set is not a fixed point",
                              "text": text2[-200:] + " <> " + text3[-200:]})
            if sorted(fs2.requires) != sorted(before_req):
                probs.append({"prop": "C11", "step": k, "what": "requires %r became %r" % (before_req, fs2.requires)})
            fs = fs2
        tw = F.twins_changed()
        if tw:
            probs.append({"prop": "C12" if prop != "C11" else "C11", "step": k, "what": "after %s: %s" % (op, tw)})
            F.TWINS.clear()
            break
        # ---- compare with the specification
        if kind != "reload" and ret != "any" and got != ret:
            probs.append({"prop": "C12", "step": k, "what": "%s returned %s, list model says %s" % (op, got, ret)})
        proj = F.project(fs)
        want = [(N_str[f["name"]], f["enabled"], f["def"], nm["descs"].get(f["desc"], "")) for f in after]
        have = [(f["name"], f["enabled"], f["def"], f["desc"]) for f in proj]
        if want != have:
            probs.append({"prop": "C11" if kind == "reload" else "C12", "step": k,
                          "what": "after %s the set is %r, list model says %r" % (op, have, want)})
            break
        for f in proj:
            if f["isdisabled"] != (not f["enabled"]) or f["wraps"] != (0 if f["enabled"] else 1) or f["getfilter"] != "own":
                probs.append({"prop": "C12", "step": k,
                              "what": "after %s filter %r: enabled=%s is_filter_disabled=%s if-false wrappers=%s getfilter=%s"
                                      % (op, f["name"], f["enabled"], f["isdisabled"], f["wraps"], f["getfilter"])})
        if probs:
            break
    return probs, len(hist)


STATUS = ("enable", "disable", "move", "remove", "reload")
EDIT = ("update", "replace", "enable", "disable")
PLANS = {
    ("C12", "quick"): [(2, [("N1", "D1"), ("N2", "D2")], ["plain", "bytes", "nfd"]), (2, [], ["plain"]), (2, [("N1", "D1")], ["nasty", "mixed"]),
                       (3, [("N1", "D1"), ("N2", "D2")], ["plain"], STATUS), (3, [("N1", "D1")], ["plain"], EDIT)],
    ("C12", "thorough"): [(3, [("N1", "D1"), ("N2", "D2")], ["plain", "nasty", "bytes", "mixed", "nfd"]), (3, [], ["plain", "bytes"]), (3, [("N1", "D2")], ["plain", "mixed"]),
                          (5, [("N1", "D1"), ("N2", "D2")], ["plain"], STATUS), (4, [("N1", "D1")], ["plain"], EDIT)],
    ("C11", "quick"): [(2, [("N1", "D1"), ("N2", "D2")], ["plain", "nasty", "custom", "meta", "intl", "nfd"]), (2, [], ["nasty", "bytes"]),
                       (3, [("N1", "D1"), ("N2", "D2")], ["nasty", "custom", "meta", "intl"], STATUS),
                       (2, [("N1", "D3"), ("N2", "D3")], ["plain", "custom"], ALLOPS, ("D3",))],
    ("C11", "thorough"): [(3, [("N1", "D1"), ("N2", "D2")], ["plain", "nasty", "custom", "meta", "intl", "bytes", "nfd"]), (3, [], ["nasty", "custom", "meta", "intl"]),
                          (3, [("N1", "D3"), ("N2", "D3")], ["plain", "custom", "meta"], ALLOPS, ("D3",))],
}


def run(prop, tier, seed):
    t0 = time.time()
    machinery = []
    states = trans = 0
    tasks = []
    for plan in PLANS[(prop, tier)]:
        maxops, initfs, namings = plan[:3]
        hs, res = tlc_histories(maxops, initfs, ops=plan[3] if len(plan) > 3 else ALLOPS,
                                defs_=plan[4] if len(plan) > 4 else ("D1", "D2"))
        if res["error"] or res["violated"]:
            machinery.append("TLC FiltersSet: %s %s" % (res["error"], res["violated"]))
        states += res["distinct"]
        trans += res["states"]
        for h in hs:
            if prop == "C11" and not any(st[0][0] == "reload" for st in h):
                continue
            for nk in namings:
                tasks.append((h, initfs, nk, prop))
    # long walks
    hs, res = tlc_histories(30, [("N1", "D1")], names=("N1", "N2", "N3"), simulate=(40 if tier == "quick" else 4000),
                            seed=seed + 1, depth=31)
    if res["error"] or res["violated"]:
        machinery.append("TLC FiltersSet (simulate): %s %s" % (res["error"], res["violated"]))
    trans += res["states"]
    for i, h in enumerate(hs):
        tasks.append((h, [("N1", "D1")], ["plain", "nasty", "custom", "meta", "intl", "bytes", "mixed", "nfd"][i % 8], prop))
    nsteps = 0
    probs = []
    with mp.Pool(14) as pool:
        for ps, n in pool.imap_unordered(run_history, tasks, chunksize=200):
            nsteps += n
            probs.extend(p for p in ps if p["prop"] == prop)
    devs = findings.open_devs("FiltersSet")
    bydev = findings.by_dev()
    known, viols = {}, []
    for p in probs:
        hit = None
        for d in devs:
            if bydev[d].get("when") and bydev[d]["when"] in p["what"]:
                hit = d
        if hit:
            known.setdefault(hit, []).append(p)
        else:
            viols.append(p)
    rc = 0
    for m in machinery:
        print("MACHINERY-FAILURE " + m)
        rc = 2
    for d, rs in sorted(known.items()):
        print("KNOWN-FINDING: property=%s %s (%s): %s [%d cases]" % (prop, bydev[d]["id"], d, bydev[d]["what"], len(rs)))
    os.makedirs(os.path.join(VERIF, "build", "replay"), exist_ok=True)
    seen, k = set(), 0
    for p in viols:
        key = p["what"].split(" ")[0:3].__repr__()
        if key in seen or k >= 12:
            continue
        seen.add(key)
        path = os.path.join(VERIF, "build", "replay", "%s_%d.json" % (prop, k))
        with open(path, "w") as fp:
            json.dump({"property": prop, "case": p}, fp, indent=1, default=str, ensure_ascii=False)
        print("VIOLATION property=%s replay=%s  # step %d: %s" % (prop, path, p["step"], p["what"][:300]))
        k += 1
    if viols and rc == 0:
        rc = 1
    cov = {"states": states, "transitions": trans, "traces_validated_against_impl": len(tasks),
           "samples": [{"history_from_TLC": tasks[i][0], "naming": tasks[i][2]} for i in (0, len(tasks) // 2) if tasks],
           "exhaustive": True, "evaluations": nsteps, "distinct_nontrivial": len(tasks),
           "rule": "every sequence of add/update/replace/remove/enable/disable/move/reload up to MaxOps over 2 names + 1 unknown, "
                   "2 definitions, from several initial sets (TLC exhaustive) + simulated walks of 30 operations over 3 names; "
                   "each replayed on a real FiltersSet, projection compared after every step",
           "plans": [list(pl) for pl in PLANS[(prop, tier)]], "steps_compared": nsteps,
           "known_finding_cases": {d: len(v) for d, v in known.items()}, "violating_cases": len(viols),
           "trusted_base": ["harness/fs_impl.py projection of FiltersSet (name, enabled, is_filter_disabled, wrappers, definition id, description)"]}
    evidence.write(prop, tier, seed, t0, cov, len(viols), ["definitions are two fixed representative filters; value-level behaviour is C06/C19"])
    return rc
