import json
import os
import time

VERIF = os.path.dirname(os.path.dirname(os.path.abspath(__file__)))


def write(prop, tier, seed, t0, coverage, violations, assumptions, level="model_checking"):
    os.makedirs(os.path.join(VERIF, "evidence"), exist_ok=True)
    ev = {"property_id": prop, "tier": tier, "seed": int(seed), "level": level,
          "coverage": coverage, "assumptions": assumptions,
          "wall_s": round(time.time() - t0, 2), "violations": int(violations)}
    path = os.path.join(VERIF, "evidence", prop + ".json")
    tmp = path + ".tmp"
    with open(tmp, "w") as fp:
        json.dump(ev, fp, indent=1, ensure_ascii=False, default=str)
    os.replace(tmp, path)
    return path
