"""Abstract Sieve tokens -> concrete bytes, under a layout, with exact byte spans.

A token is (k, v) as in spec/SieveGrammar.tla.  String contents that start with
"@" name a *value class* (C04/C06); the concrete text of a class lives here and
nowhere else.  `render` returns (bytes, spans) where spans[i] = (offset, length,
line, col) of token i (1-based line, 1-based byte column), so that error positions
predicted by the specification (index of the offending token) can be compared
with Parser.error_pos byte-exactly.
"""

VALUE_CLASSES = {
    "@plain": "hello",
    "@empty": "",
    "@endq": 'ends"',
    "@startq": '"starts',
    "@innerq": 'in"ner',
    "@bslash": "back\\slash",
    "@endbs": "endbs\\",
    "@comma": "a,b",
    "@brackets": "[x] {y} (z)",
    "@newline": "line1\nline2",
    "@crlf": "l1\r\nl2",
    "@nonascii": "héllo ☃",
    "@dollar": "cost $5",
    "@semi": 'x"; stop; #',
    "@hash": "a # b",
    "@dotline": "a\n.b\n..c",
    "@tag": ":is",
    "@space": " padded ",
    "@mlshape": "text:\nlooks like a literal\n.",
    "@mlinject": "text:\nx\n.\ndiscard;\n.",
}


def content_of(v):
    """concrete text of an abstract string value"""
    if v.startswith("@"):
        return VALUE_CLASSES[v]
    return v


def quote(s):
    return '"' + s.replace("\\", "\\\\").replace('"', '\\"') + '"'


def multiline(s, eol="\n"):
    """RFC 5228 multi-line literal holding s (s is the content without the final line break)."""
    lines = s.split("\n")
    out = ["text:"]
    for ln in lines:
        if ln.endswith("\r"):
            ln = ln[:-1]
        out.append("." + ln if ln.startswith(".") else ln)
    out.append(".")
    return eol.join(out)


PUNCT = {"lb": "[", "rb": "]", "lp": "(", "rp": ")", "lc": "{", "rc": "}", "semi": ";", "comma": ","}


def tok_text(tok, case="lower", eol="\n"):
    k, v = tok
    if k in PUNCT:
        return PUNCT[k]
    if k in ("id", "tag"):
        if case == "upper":
            return v.upper()
        if case == "mixed":
            return "".join(c.upper() if i % 2 == 0 else c for i, c in enumerate(v))
        return v
    if k == "str":
        return quote(content_of(v))
    if k == "ml":
        return multiline(content_of(v), eol)
    if k == "num":
        return v
    if k == "raw":
        return v
    raise ValueError(tok)


# layouts: name -> (separator chooser, case, eol)
def _sep_compact(i, prev, cur):
    # no separator where the lexer does not need one
    if prev is None:
        return ""
    need = prev[0] in ("id", "tag", "num") and cur[0] in ("id", "tag", "num", "ml")
    if prev[0] == "ml":
        return "\n"
    return " " if need else ""


def _sep_space(i, prev, cur):
    if prev is None:
        return ""
    if prev[0] == "ml":
        return "\n"
    return " "


def _sep_lines(i, prev, cur):
    if prev is None:
        return "# leading comment éè\n"
    return "\n"


def _sep_crlf_comments(i, prev, cur):
    if prev is None:
        return "/* multi\r\n line ☃ */\r\n"
    m = i % 4
    if m == 0:
        return " # cé\r\n"
    if m == 1:
        return "\r\n\t"
    if m == 2:
        return " /* x */ "
    return "\r\n"


def _sep_pretty(i, prev, cur):
    if prev is None:
        return ""
    if prev[0] in ("semi", "lc", "rc", "ml"):
        return "\n"
    return " "


COMMENT_BODIES = ["/* a\n   b\n*/", "/***/", "/**/", "/* x **/", "/******* banner *******/", "/* a * / b */", "/*/ */", "/* é☃ # \" */",
                  "/* keep; */# }{ ;\n", "/****/"]


def _sep_mlcomment(i, prev, cur):
    if prev is None:
        return ""
    if i % 3 == 0:
        # comment bodies as people write them: banners of stars, a star right before the closer, a slash inside,
        # an empty comment, a closer look-alike split by a blank
        return "\n" + COMMENT_BODIES[(i // 3) % len(COMMENT_BODIES)] + " "
    if prev[0] == "ml":
        return "\n"
    return "  "


LAYOUTS = {
    "space": (_sep_space, "lower", "\n"),
    "compact": (_sep_compact, "lower", "\n"),
    "pretty": (_sep_pretty, "lower", "\n"),
    "upper": (_sep_space, "upper", "\n"),
    "mixed": (_sep_pretty, "mixed", "\n"),
    "lines": (_sep_lines, "lower", "\n"),
    "crlf": (_sep_crlf_comments, "upper", "\r\n"),
    "mlcomment": (_sep_mlcomment, "lower", "\n"),
}


def render(tokens, layout="space", suffix=""):
    """-> (bytes, spans); spans[i] = (byte offset, byte length, line, col)."""
    sepf, case, eol = LAYOUTS[layout]
    out = bytearray()
    spans = []
    prev = None
    for i, tok in enumerate(tokens):
        sep = sepf(i, prev, tok)
        if prev is not None and prev[0] == "ml" and not sep.startswith(("\n", "\r\n")):
            sep = eol + sep        # the closing dot must be alone on its line
        out += sep.encode("utf-8")
        txt = tok_text(tok, case, eol).encode("utf-8")
        off = len(out)
        line = out.count(b"\n") + 1
        col = off - out.rfind(b"\n")
        spans.append((off, len(txt), line, col))
        out += txt
        prev = tok
    if suffix:
        if prev is not None and prev[0] == "ml":
            out += b"\n"
        out += suffix.encode("utf-8")
    return bytes(out), spans
