"""Strict server-side parser of ManageSieve client output (RFC 5804 section 4, ABNF `command`).

Independent of the client.  decode(bytes) -> list of items:
   ("cmd", VERB, [args])    args: bytes (string, quoted or literal), int (number)
   ("cont", bytes)          a line holding a single string: SASL continuation data
raises Malformed(offset, why) on anything else (bare 8-bit, unescaped quote, missing CRLF,
literal shorter than announced, trailing garbage ...).
"""


class Malformed(Exception):
    def __init__(self, off, why):
        Exception.__init__(self, "offset %d: %s" % (off, why))
        self.off = off
        self.why = why


VERBS = {b"AUTHENTICATE", b"STARTTLS", b"LOGOUT", b"CAPABILITY", b"HAVESPACE", b"PUTSCRIPT", b"LISTSCRIPTS",
         b"SETACTIVE", b"GETSCRIPT", b"DELETESCRIPT", b"RENAMESCRIPT", b"CHECKSCRIPT", b"NOOP", b"UNAUTHENTICATE"}


def _string(d, i):
    """parse a string at i -> (bytes, next)"""
    n = len(d)
    if i < n and d[i] == 0x22:
        j = i + 1
        out = bytearray()
        while True:
            if j >= n:
                raise Malformed(i, "unterminated quoted string")
            c = d[j]
            if c == 0x5C:
                if j + 1 >= n or d[j + 1] not in (0x22, 0x5C):
                    raise Malformed(j, "bad escape in quoted string")
                out.append(d[j + 1])
                j += 2
            elif c == 0x22:
                return bytes(out), j + 1
            elif c in (0x0D, 0x0A, 0x00):
                raise Malformed(j, "CR/LF/NUL inside quoted string")
            else:
                out.append(c)
                j += 1
    if i < n and d[i] == 0x7B:
        j = i + 1
        while j < n and 0x30 <= d[j] <= 0x39:
            j += 1
        if j == i + 1:
            raise Malformed(i, "literal without length")
        ln = int(d[i + 1:j])
        if j < n and d[j] == 0x2B:
            j += 1
        else:
            raise Malformed(j, "client literal must be non-synchronising {n+}")
        if d[j:j + 3] != b"}\r\n":
            raise Malformed(j, "bad literal header")
        j += 3
        if j + ln > n:
            raise Malformed(j, "literal shorter than announced (%d > %d)" % (ln, n - j))
        return bytes(d[j:j + ln]), j + ln
    raise Malformed(i, "string expected")


def decode(d):
    d = bytes(d)
    out = []
    i = 0
    n = len(d)
    while i < n:
        if d[i] in (0x22, 0x7B):
            s, j = _string(d, i)
            if d[j:j + 2] != b"\r\n":
                raise Malformed(j, "CRLF expected after continuation string")
            out.append(("cont", s))
            i = j + 2
            continue
        j = i
        while j < n and (0x41 <= d[j] <= 0x5A or 0x61 <= d[j] <= 0x7A):
            j += 1
        verb = d[i:j].upper()
        if verb not in VERBS:
            raise Malformed(i, "unknown command %r" % d[i:j + 10])
        args = []
        while True:
            if d[j:j + 2] == b"\r\n":
                j += 2
                break
            if j >= n or d[j] != 0x20:
                raise Malformed(j, "SP or CRLF expected")
            j += 1
            if j < n and 0x30 <= d[j] <= 0x39:
                k = j
                while k < n and 0x30 <= d[k] <= 0x39:
                    k += 1
                args.append(int(d[j:k]))
                j = k
            else:
                s, j = _string(d, j)
                args.append(s)
        out.append(("cmd", verb.decode(), args))
        i = j
    return out


def quote(b):
    return b'"' + b.replace(b"\\", b"\\\\").replace(b'"', b'\\"') + b'"'
