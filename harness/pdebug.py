import sys, json, collections, time
sys.path.insert(0, "/verif")
from harness import pengine, slices
name = sys.argv[1]; maxlen = int(sys.argv[2])
devs = sys.argv[3].split(",") if len(sys.argv) > 3 and sys.argv[3] else []
sl = dict(slices.SLICES[name]); sl["devs"] = devs
t0 = time.time()
res, total, recs = pengine.run_slice(sl, maxlen, ["space", "crlf", "lines", "compact", "upper", "mlcomment"], 2, 2,
                                     ["", " ;", " }", " stop;", " { }", "\nkeep;\n"])
print("TLC", {k: res[k] for k in ("states", "distinct", "depth", "wall", "error", "violated")})
print(total, "wall %.1f" % (time.time() - t0), "records", len(recs))
grp = collections.OrderedDict()
for r in recs:
    for prop, d in r["failed"].items():
        key = (prop, r["ref"][1], r["ref"][2], tuple(r["expl"] or ()) , r["obs"]["cls"], r["obs"]["verdict"], d.split(":")[0][:50])
        grp.setdefault(key, []).append(r)
for key, rs in sorted(grp.items(), key=lambda kv: -len(kv[1])):
    r = min(rs, key=lambda r: len(r["text"]))
    print(len(rs), key, "| e.g.", repr(r["text"][-100:]), r["obs"].get("error"), r["obs"].get("exc",""))
