"""Extra drivers for the parser checks: inputs TLC did not enumerate, judged by TLC (SieveTrace).

 suite  : every script the repository's own parser/factory tests feed to Parser.parse (recorded by
          running the suite with Parser.parse wrapped).  The suite's verdicts are axioms for the
          specification: a pinned script the reference disagrees on is a machinery failure.
 deep   : grammar-directed valid scripts from `tlc -simulate` (SieveEnum!SimSpec), plus seeded
          single-token edits of them (delete, duplicate, swap, replace by a token of another class).
 bytes  : byte-level mutants of rendered valid scripts (C02 totality, C18 lexical positions).
"""
import base64
import json
import os
import random
import subprocess
import sys

from . import psim, ptrace, render as R

VERIF = os.path.dirname(os.path.dirname(os.path.abspath(__file__)))
POOL = [("semi", ""), ("lc", ""), ("rc", ""), ("lp", ""), ("rp", ""), ("comma", ""), ("lb", ""), ("rb", ""),
        ("str", "x"), ("num", "3"), ("tag", ":bogus"), ("tag", ":is"), ("id", "bogus"), ("id", "stop"),
        ("id", "true"), ("id", "else"), ("id", "fileinto"), ("ml", "m")]
LAYS = ["space", "pretty", "crlf", "lines", "compact", "mixed", "mlcomment", "upper"]


def record_suite():
    out = os.path.join(VERIF, "build", "suite_%d.json" % os.getpid())
    os.makedirs(os.path.dirname(out), exist_ok=True)
    env = dict(os.environ)
    env.pop("PYTEST_CURRENT_TEST", None)
    p = subprocess.run([sys.executable, "-W", "ignore", "-m", "harness.record_suite", out], cwd=VERIF,
                       stdout=subprocess.PIPE, stderr=subprocess.STDOUT, env=env, timeout=600)
    try:
        d = json.load(open(out))
    finally:
        if os.path.exists(out):
            os.unlink(out)
    return d


# tags of Sieve extensions the library does not implement (RFC 5233 subaddress, 5260 index, 5703 mime, 5435 notify,
# 5229 modifiers, 6134 extlists, 5293 editheader, 6609 include): a parser that starts to accept one of them must also
# gate it -- as long as the command table does not know them they are refused as tags the command does not take
RFC_TAGS = [":user", ":detail", ":index", ":last", ":mime", ":anychild", ":type", ":subtype", ":contenttype", ":param",
            ":importance", ":options", ":message", ":lower", ":upper", ":lowerfirst", ":upperfirst", ":quotewildcard",
            ":length", ":list", ":once", ":optional", ":personal", ":global", ":fcc", ":specialuse", ":handle2"]


def mutants(tokens, rng, k):
    out = []
    n = len(tokens)
    for _ in range(k):
        i = rng.randrange(n)
        kind = rng.choice(["del", "dup", "swap", "repl", "ins", "rfctag"])
        t = list(tokens)
        if kind == "rfctag":
            ids = [j for j, x in enumerate(t) if x[0] == "id"]
            j = rng.choice(ids) if ids else i
            t.insert(j + 1, ("tag", rng.choice(RFC_TAGS)))
            out.append(t)
            continue
        if kind == "del":
            del t[i]
        elif kind == "dup":
            t.insert(i, t[i])
        elif kind == "swap" and i + 1 < n:
            t[i], t[i + 1] = t[i + 1], t[i]
        elif kind == "repl":
            c = rng.choice([x for x in POOL if x[0] != t[i][0]])
            t[i] = c
        else:
            t.insert(i, rng.choice(POOL))
        out.append(t)
    return out


def byte_mutants(data, rng, k):
    out = []
    hostile = [b"\x00", b"\xff", b"\xc3", b"\xa9", b"\xc3\xa9", b'"', b"\\", b"/*", b"text:\n", b"#", b"@", b"%",
               b"\r", b"\n", b":", b"{", b"(", b"[", b".", b"\x0b", b"\xe2\x98\x83"]
    for _ in range(k):
        b = bytearray(data)
        kind = rng.choice(["flip", "ins", "del", "trunc", "ins2", "unterminated", "lead"])
        i = rng.randrange(len(b) + 1)
        if kind == "lead":
            # octets that editors and transports put in front of a file: no Sieve token starts with them
            lead = rng.choice([b"\xef\xbb\xbf", b"\xff\xfe", b"\xfe\xff", b"\x00", b"\x1a", b"\xef\xbb\xbf\xef\xbb\xbf"])
            out.append(lead + data)
            # ... also in front of a script that is invalid further on: the first invalid token is still the lead
            out.append(lead + data[: max(1, len(data) * 2 // 3)] + b" }}} ")
            continue
        if kind == "unterminated":
            # an opener at i whose closer never comes (long tail up to the end of input)
            op = rng.choice([b'"', b'"', b"/*", b"text:\n", b"text:\r\n"])
            tail = bytes(b[i:])
            if op == b"text:\r\n":
                # a multi-line string that never gets its lone dot, followed by many CRLF-terminated lines
                tail = tail.replace(b"\n.", b"\n .") + b"".join(b"line %d of a long text\r\n" % k for k in range(60)) + b". \r\n"
                out.append(bytes(b[:i]) + op + tail)
                continue
            if op == b'"' and rng.random() < 0.5:
                # escapes everywhere: every second octet of the tail is a backslash, and no closing quote
                tail = b"\\" * 40 + tail.replace(b'"', b"'").replace(b"\\", b"/") + b"\\" * 41 + b"x"
            elif op == b'"':
                tail = tail.replace(b'"', b"'").replace(b"\\", b"/")
            elif op == b"/*":
                tail = tail.replace(b"*/", b"* /")
            else:
                tail = tail.replace(b"\n.", b"\n .")
            out.append(bytes(b[:i]) + op + tail + b" padding so that the tail is long enough to matter")
            continue
        if kind == "flip" and i < len(b):
            b[i] ^= 1 << rng.randrange(8)
        elif kind == "ins":
            b[i:i] = rng.choice(hostile)
        elif kind == "ins2":
            b[i:i] = rng.choice(hostile)
            j = rng.randrange(len(b) + 1)
            b[j:j] = rng.choice(hostile)
        elif kind == "del" and i < len(b):
            del b[i:i + rng.randrange(1, 4)]
        else:
            del b[i:]
        out.append(bytes(b))
    return out


def classify(recs, prop, devs, source):
    known, viols = {}, []
    for r in recs:
        if prop not in r["failed"]:
            continue
        r = dict(r)
        r["source"] = source
        ex = r["expl"]
        if ex and all(d in devs for d in ex):
            for d in ex:
                known.setdefault(d, []).append(r)
        else:
            viols.append((source, r))
    return known, viols


def merge(out, known, viols):
    for d, rs in known.items():
        out["known"].setdefault(d, []).extend(rs)
    out["viols"].extend(viols)


ML_LINES = [". ", ".\t", ". \t ", "..", "...", ".x", ". x", " .", "\t.", "", " ", "text:", "text:\t", ";", "keep;", "stop ;",
            "# c", "/* c", "*/", '"', '\\"', "a", "a.", "é☃", "}", "{", ". ;", ".;", "..;", "reject text:", ".text:"]
ML_HEADS = ["text:", "text: ", "text:\t \t", "text: # note", "text:#.", "TEXT:", "Text: \t#x ."]


def ml_shapes(rng, n):
    """multi-line strings in their legal lexical shapes (RFC 5228 2.4.2 / 8.1): blanks or a hash comment after
    `text:', unnecessarily dot-stuffed lines (a dot followed by blanks is content), lines that look like the
    terminator, like another opener or like commands -- as the argument of a few carriers, followed by more script"""
    out = []
    # a string whose content, were it ended early at one of its lines, continues as a valid script: a lexer that
    # takes that line for the terminator then *accepts*, with another tree
    for x in ML_LINES:
        for eol in ("\n", "\r\n"):
            for head in (ML_HEADS[0], rng.choice(ML_HEADS[1:5])):
                txt = ('require "reject";' + eol + "reject " + head + eol + "first" + eol + x + eol + "; reject text:" + eol
                       + "no thanks" + eol + "." + eol + "; keep;" + eol)
                out.append(txt.encode("utf-8"))
    # quoted strings that hold line breaks themselves (legal: a quoted string may span lines)
    for eol in ("\n", "\r\n"):
        for a, b in (("two" + eol + "lines", "reason" + eol + "more" + eol), (eol, "x" + eol + eol + "y"), ("a", eol + "b")):
            out.append(('require "vacation";' + eol + 'vacation :subject "' + a + '" "' + b + '";' + eol
                        + 'if header :is "s" ["' + b + '", "' + a + '"] { keep; }' + eol).encode("utf-8"))
    for _ in range(n):
        eol = rng.choice(["\n", "\r\n"])
        def ml():
            body = [rng.choice(ML_LINES) for _ in range(rng.randrange(0, 5))]
            return eol.join([rng.choice(ML_HEADS)] + body + ["."]) + eol
        form = rng.randrange(4)
        if form == 0:
            txt = 'require "reject"; reject ' + ml() + "; keep;" + eol
        elif form == 1:
            txt = 'require ["vacation"];' + eol + "vacation :subject " + ml() + " :from " + ml() + ml() + ";" + eol
        elif form == 2:
            txt = "if header :is " + ml() + "[" + ml() + ", " + ml() + "] { redirect " + ml() + "; }" + eol + "stop;"
        else:
            txt = 'require ["fileinto", "reject"]; if true { reject ' + ml() + "; } else { fileinto " + ml() + " ; }" + eol
        out.append(txt.encode("utf-8"))
    return out


def deep_and_long(rng, tier):
    """size-scaled scripts: nesting far deeper and tokens far longer than any enumeration bound (RFC 5228 2.10.7 wants at
    least 15 levels of nested blocks and of nested test lists; numbers and strings have no length limit in the grammar)"""
    out = []
    depths = [1, 2, 3, 5, 8, 13, 14, 15, 16, 17, 24, 32, 33, 40] if tier == "quick" else list(range(1, 41)) + [48, 64, 65, 96]
    for d in depths:
        for eol in ("\n", "\r\n"):
            out.append(("if true {" + eol) * d + "keep;" + eol + ("}" + eol) * d)
            out.append("if " + "anyof (not " * d + "true" + ")" * d + " { stop; }" + eol)
            out.append("if " + "not " * d + "false { discard; }" + eol)
            half = d // 2
            out.append(("if allof (true, " + "anyof (" * half + "false" + ")" * half + ") {" + eol) * (d - half)
                       + 'redirect ["a"' + ', "b"' * d + "];" + eol + ("}" + eol) * (d - half))
            # the same, one closer short / one too many: rejected
            out.append(("if true {" + eol) * d + "keep;" + eol + ("}" + eol) * (d - 1))
            out.append("if " + "anyof (" * d + "true" + ")" * (d + 1) + " { stop; }" + eol)
    for n in ([257, 258, 300, 1000] if tier == "quick" else [2, 16, 255, 256, 257, 258, 259, 300, 1000]):
        out.append("if anyof (" + ", ".join(["true", "false", 'exists "a"'][k % 3] for k in range(n)) + ") { stop; }\n")
        out.append("if allof (not anyof (" + ", ".join("true" for k in range(n)) + "), false) { keep; }\n")
        out.append("redirect [" + ", ".join('"a%d"' % (k % 7) for k in range(n)) + "];\n")      # a list where a single string is wanted: rejected
        out.append('if header :is [' + ", ".join('"h%d"' % k for k in range(n)) + '] [' + ", ".join('"v"' for k in range(n)) + "] { discard; }\n")
    sizes = [10, 19, 20, 21, 100, 1000, 4300, 4301, 5000, 20000] if tier == "quick" else \
        [9, 10, 18, 19, 20, 21, 63, 64, 65, 100, 255, 256, 1000, 4095, 4096, 4300, 4301, 5000, 20000, 70000]
    for n in sizes:
        digits = "".join(rng.choice("123456789") for _ in range(n))
        out.append("if size :over " + digits + " { stop; }\n")
        out.append("if size :under " + digits + "K { stop; }\n")
        out.append('require "vacation"; vacation :days ' + digits + ' "gone";\n')
        out.append('redirect "' + "a" * n + '";\n')
        out.append('require "reject"; reject text:\n' + ("x" * 70 + "\n") * (n // 70 + 1) + ".\n;\n")
        out.append("k" * n + ";\n")                             # unknown command with a very long name
        # a very long token that is the *offending* one (its position and length are reported)
        out.append('# c\nkeep;\nstop "' + "s" * n + '";\n')
        out.append("discard " + digits + ";\n")
        out.append("if true { keep :" + "g" * n + "; }\n")
        out.append('stop text:\n' + ("y" * 60 + "\n") * (n // 60 + 1) + ".\n;\n")
        out.append("if header :" + "t" * n + ' "a" "b" { stop; }\n')  # unknown tag with a very long name
        out.append("# " + "c" * n + "\nkeep; /* " + "d" * n + " */ stop;\n")
        out.append("keep;\n" * min(n, 3000))
    return [x.encode("utf-8") for x in out]


def driver(prop, tier, seed, devs):
    rng = random.Random(seed * 7919 + 13)
    out = {"name": "trace_validation", "states": 0, "transitions": 0, "parses": 0, "known": {}, "viols": [],
           "machinery": [], "coverage": {}, "samples": []}
    # ---- suite scripts: axioms + conformance
    d = record_suite()
    scripts, pins = [], []
    for e in d["log"]:
        if "AdditionalCommands" in e["test"]:
            continue            # scripts using commands registered by that test class (C20's domain)
        scripts.append(base64.b64decode(e["text"]))
        pins.append(e["result"])
    if d["rc"] != 0:
        out["coverage"]["suite_note"] = "repository tests did not all pass while recording (rc=%s)" % d["rc"]
    recs, cnt, st = ptrace.judge_scripts(scripts, devs, roundtrip=(prop == "C04"))
    if st["error"]:
        out["machinery"].append("SieveTrace on suite scripts: %s" % st["error"])
    # pins as axioms: the verdict the suite itself observed (and asserts) must be the reference's, or dontcare,
    # or explained by an open deviation -- otherwise the specification is wrong
    if d["rc"] == 0:
        for data, pin, ref in zip(scripts, pins, st.get("refs", [])):
            if ref is None or ref["irr"] or ref["note"] or pin not in (True, False):
                continue
            if (ref["v"] == "acc") != pin and not ref["devpaths"]:
                out["machinery"].append("pinned verdict %s contradicts the reference %s(%s) (specification bug?): %r"
                                        % (pin, ref["v"], ref["why"], data[:80]))
    k, v = classify(recs, prop, devs, "suite")
    merge(out, k, v)
    out["states"] += st["distinct"]
    out["transitions"] += st["states"]
    out["parses"] += cnt["parses"]
    out["coverage"]["suite_scripts"] = dict(cnt)
    # ---- deep scripts from TLC simulation, and their mutants
    nsim = 25 if tier == "quick" else 400
    valid = []
    simstates = 0
    for which in ("simnest", "sim"):
        got, res = psim.simulate(which, nsim, 45 if which == "simnest" else 30, seed + 1)
        if res["error"] or res["violated"]:
            out["machinery"].append("simulation %s: %s %s" % (which, res["error"], res["violated"]))
        simstates += res["states"]
        valid.extend(t for t, o in got if len(t) >= 12)
    valid = sorted(set(tuple(t) for t in valid))      # TLC's workers print in any order: make the sample reproducible
    valid = [list(t) for t in valid]
    rng.shuffle(valid)
    nvalid = 500 if tier == "quick" else 12000
    nmut = 6 if tier == "quick" else 10
    valid = valid[:nvalid]
    batch = []
    for toks in valid:
        lay = rng.choice(LAYS)
        batch.append(R.render(toks, lay)[0])
        if prop != "C02":
            for m in mutants(toks, rng, nmut):
                batch.append(R.render(m, rng.choice(LAYS))[0])
    if prop in ("C02", "C18"):
        nb = 4 if tier == "quick" else 12
        for toks in valid[: (400 if tier == "quick" else 8000)]:
            data = R.render(toks, rng.choice(LAYS))[0]
            batch.extend(byte_mutants(data, rng, nb))
    batch = list(dict.fromkeys(batch))
    if prop == "C04":
        # value generator aimed at quoting edge cases: every value class in every string position of a few carriers
        vcs = sorted(R.VALUE_CLASSES)
        for v in vcs:
            for form in ("str", "ml"):
                tv = (form, v)
                for carrier in ([("id", "redirect"), tv, ("semi", "")],
                                [("id", "if"), ("id", "header"), ("tag", ":is"), ("lb", ""), ("str", v), ("comma", ""), ("str", "x"), ("rb", ""), tv, ("lc", ""), ("rc", "")],
                                [("id", "require"), ("str", "vacation"), ("semi", ""), ("id", "vacation"), ("tag", ":subject"), tv, ("tag", ":addresses"), ("lb", ""), ("str", v), ("rb", ""), tv, ("semi", "")],
                                [("id", "if"), ("id", "not"), ("id", "exists"), ("lb", ""), ("str", v), ("comma", ""), ("str", v), ("rb", ""), ("lc", ""), ("id", "if"), ("id", "true"), ("lc", ""), ("id", "redirect"), tv, ("semi", ""), ("rc", ""), ("rc", "")],
                                # lists with an item repeated, also as the last one; a test list with a test repeated
                                [("id", "if"), ("id", "anyof"), ("lp", ""), ("id", "header"), ("tag", ":is"), ("lb", ""), ("str", v), ("comma", ""), ("str", "x"), ("comma", ""), ("str", v), ("rb", ""),
                                 ("lb", ""), ("str", "k"), ("comma", ""), ("str", "k"), ("rb", ""), ("comma", ""), ("id", "true"), ("comma", ""),
                                 ("id", "header"), ("tag", ":is"), ("lb", ""), ("str", v), ("comma", ""), ("str", "x"), ("comma", ""), ("str", v), ("rb", ""),
                                 ("lb", ""), ("str", "k"), ("comma", ""), ("str", "k"), ("rb", ""), ("rp", ""), ("lc", ""), ("id", "redirect"), tv, ("semi", ""), ("rc", "")],
                                # a string of this form as the parameter of every tag that takes one
                                [("id", "require"), ("lb", ""), ("str", "body"), ("comma", ""), ("str", "date"), ("comma", ""), ("str", "fileinto"), ("comma", ""), ("str", "imap4flags"), ("rb", ""), ("semi", ""),
                                 ("id", "if"), ("id", "anyof"), ("lp", ""), ("id", "body"), ("tag", ":contains"), ("tag", ":content"), tv, ("lb", ""), ("str", "k1"), ("comma", ""), ("str", v), ("rb", ""), ("comma", ""),
                                 ("id", "not"), ("id", "date"), ("tag", ":zone"), tv, ("str", "date"), ("str", "hour"), ("str", "1"), ("comma", ""),
                                 ("id", "currentdate"), ("tag", ":zone"), tv, ("tag", ":is"), ("str", "date"), tv, ("rp", ""), ("lc", ""),
                                 ("id", "fileinto"), ("tag", ":flags"), tv, tv, ("semi", ""), ("id", "keep"), ("semi", ""), ("rc", "")],
                                [("id", "require"), ("str", "vacation"), ("semi", ""), ("id", "vacation"), ("tag", ":from"), tv, ("tag", ":handle"), tv, ("tag", ":addresses"), tv, ("tag", ":subject"), tv, tv, ("semi", "")]):
                    for lay in ("space", "crlf"):
                        batch.append(R.render(carrier, lay)[0])
    if prop in ("C01", "C03", "C04", "C18"):
        batch.extend(ml_shapes(rng, 150 if tier == "quick" else 4000))
    if prop in ("C01", "C02", "C03", "C04", "C18"):
        batch.extend(deep_and_long(rng, tier))
    if prop == "C02":
        # far below the interpreter's recursion limit nothing distinguishes iteration from recursion: nesting of
        # 1 000 and 3 000 levels (only totality is judged on these: the harness's own tree projection is recursive)
        # (judged for totality alone, without a reference verdict: TLC's stack copies are quadratic in the depth)
        from . import sieve_impl as I
        import re as _re
        pt = I.new_parser()
        for d in (1000, 3000):
            for txt in ("if " + "not " * d + "true { stop; }\n", "if " + "not " * d + "{ stop; }\n",
                        "if true {\n" * d + "keep;\n" + "}\n" * d, "if " + "anyof (" * d + "true" + ")" * d + " { stop; }\n"):
                data = txt.encode()
                o = I.run_parse(pt, data)
                out["parses"] += 1
                bad = None
                if o["cls"] != "ret":
                    bad = "outcome %s %s" % (o["cls"], o.get("exc", ""))
                elif o["verdict"] is False and not (_re.match(r"line \d+: .", o["error"] or "") and isinstance(o["error_pos"], tuple)):
                    bad = "error %r / error_pos %r" % (o["error"], o["error_pos"])
                elif o["verdict"] not in (True, False):
                    bad = "verdict %r" % (o["verdict"],)
                if bad:
                    out["viols"].append(("deep", {"text": txt[:60] + " ... (%d levels)" % d, "expl": None, "ref": [],
                                                  "failed": {"C02": bad}, "obs": {}}))
    if prop in ("C01", "C07", "C03"):
        # the same valid scripts with their `require` written in other legal ways: several commands, single strings,
        # duplicates before new names, other order
        for toks in valid[: (250 if tier == "quick" else 6000)]:
            j = toks.index(("semi", ""))
            names = [v for k, v in toks[:j] if k == "str"]
            body = toks[j + 1:]
            rng.shuffle(names)
            half = max(1, len(names) // 2)
            v1 = []
            for nme in names[:half]:
                v1 += [("id", "require"), ("str", nme), ("semi", "")]
            lst = [names[0], names[0]] + names[half:] + [names[-1]]
            v1 += [("id", "require"), ("lb", "")]
            for q, nme in enumerate(lst):
                v1 += ([("comma", "")] if q else []) + [("str", nme)]
            v1 += [("rb", ""), ("semi", "")]
            batch.append(R.render(v1 + body, rng.choice(LAYS))[0])
    batch = list(dict.fromkeys(batch))
    recs, cnt, st = ptrace.judge_scripts(batch, devs, roundtrip=(prop == "C04"))
    if st["error"]:
        out["machinery"].append("SieveTrace on generated scripts: %s" % st["error"])
    if cnt["missing"]:
        out["machinery"].append("SieveTrace returned no verdict for %d traces" % cnt["missing"])
    k, v = classify(recs, prop, devs, "generated")
    merge(out, k, v)
    if prop in ("C02", "C03"):
        # parse_file: the same totality on files (and the same outcome -- for C03 the same tree -- as parse() on the bytes)
        import tempfile
        from . import sieve_impl as I
        pf = I.new_parser()
        pp = I.new_parser()
        nfile = 0
        with tempfile.TemporaryDirectory(dir=os.path.join(VERIF, "build")) as td:
            sample = batch[:: max(1, len(batch) // (150 if tier == "quick" else 3000))]
            if prop == "C03":
                crs = [b for b in batch if b"\r" in b]
                # those with a line break inside a quoted string first, then a stride over the rest
                import re as _re2
                inq = [b for b in crs if _re2.search(rb'"[^"\\]*\r', b)]
                sample = inq[:200] + crs[:: max(1, len(crs) // (300 if tier == "quick" else 4000))] + sample[:40]
            for j, data in enumerate(sample):
                path = os.path.join(td, "s%d.sieve" % j)
                with open(path, "wb") as fp:
                    fp.write(data)
                if I._slow_events[0] >= 5:
                    break
                o1 = I.run_parse(pp, data)
                g = I.guarded(pf.parse_file, path)
                o2 = ("ret", g[1], pf.error if g[1] is False else None) if g[0] == "ret" else g
                nfile += 1
                want = ("ret", o1["verdict"], o1["error"] if o1["verdict"] is False else None) if o1["cls"] == "ret" else None
                if o1["cls"] == "hang" and o2[0] == "hang":
                    continue            # already reported by the parse() judgement of the same bytes
                if prop == "C02" and (o2[0] != "ret" or (want is not None and o2 != want)):
                    out["viols"].append(("parse_file", {"text": data.decode("utf-8", "replace"), "expl": None, "ref": [],
                                                        "failed": {"C02": "parse_file gave %r, parse() on the same bytes %r" % (o2, want)},
                                                        "obs": {}}))
                if prop == "C03" and o1["cls"] == "ret" and o1["verdict"] is True and g[0] == "ret" and g[1] is True:
                    try:
                        t2 = [I.project(c) for c in pf.result]
                    except Exception as e:  # noqa
                        t2 = ["!projection failed", str(e)[:60]]
                    if t2 != o1["tree"]:
                        out["viols"].append(("parse_file", {"text": data.decode("utf-8", "replace"), "expl": None, "ref": [],
                                                            "failed": {"C03": "parse_file builds another tree than parse() on the same bytes (which agrees with the reference)"},
                                                            "obs": {}}))
        out["parses"] += nfile
        out["coverage"]["parse_file_cases"] = nfile
    if prop == "C04":
        # the serialised outputs themselves are scripts: TLC (not the code) decides that they are valid and
        # that the code reads them as the reference does
        from . import sieve_impl as I
        outs_txt = []
        p = I.new_parser()
        for s in batch[: (3000 if tier == "quick" else 40000)]:
            o = I.run_parse(p, s)
            if o["verdict"] is True:
                try:
                    outs_txt.append(I.tosieve_text(p.result).encode("utf-8"))
                except Exception:  # noqa
                    pass
        outs_txt = list(dict.fromkeys(outs_txt))
        recs2, cnt2, st2 = ptrace.judge_scripts(outs_txt, devs)
        for r in recs2:
            bad = {kk: vv for kk, vv in r["failed"].items() if kk in ("C01", "C03")}
            if bad and not (r["expl"] and all(d in devs for d in r["expl"])):
                r = dict(r)
                r["failed"] = {"C04": "serialised output judged by the reference: %s" % bad}
                out["viols"].append(("serialised", r))
        out["states"] += st2["distinct"]
        out["transitions"] += st2["states"]
        out["parses"] += cnt2["parses"]
        out["coverage"]["serialised_outputs_judged_by_tlc"] = dict(cnt2)
    out["states"] += st["distinct"] + simstates
    out["transitions"] += st["states"] + simstates
    out["parses"] += cnt["parses"]
    out["coverage"]["generated_scripts"] = dict(cnt, valid_from_simulation=len(valid), simulation_states=simstates)
    if batch:
        out["samples"].append({"source": "generated", "script": batch[-1].decode("utf-8", "replace")[-160:]})
    return out


LEX_ALPHA = [ord(c) for c in 'tex:;,"\\#/*.[]{ a0K_\n\r$'] + [0xc3, 0xa9, 0]
IMPL_KIND = {"left_bracket": "lb", "right_bracket": "rb", "left_parenthesis": "lp", "right_parenthesis": "rp",
             "left_cbracket": "lc", "right_cbracket": "rc", "semicolon": "semi", "comma": "comma", "multiline": "ml",
             "string": "str", "identifier": "id", "tag": "tag", "number": "num"}


def tlc_lex(prefix, maxlen):
    from .tlc import run_tlc
    defs = "MCAlpha == <<%s>>\nMCPrefix == <<%s>>\n" % (", ".join(map(str, LEX_ALPHA)), ", ".join(map(str, prefix)))
    cfg = ("SPECIFICATION Spec\nCONSTANTS\n Alphabet <- MCAlpha\n Prefix <- MCPrefix\n MaxLen = %d\n"
           "INVARIANT Emit\nINVARIANT LexProgress\nINVARIANT Tiling\nCHECK_DEADLOCK FALSE\n" % maxlen)
    out = []
    res = run_tlc("lex", "SieveLex", defs, cfg, on_value=out.append, workers=3)
    return out, res


def lex_driver(prop, tier, seed, devs):
    """spec/SieveLex.tla: every octet string over a hostile alphabet up to MaxLen (plain, and behind the openers
    `text:`, `"`, `/*`) lexed by the specification, by sievelib's Lexer and by the harness's own lexer."""
    from concurrent.futures import ThreadPoolExecutor
    from . import lexref, sieve_impl as I
    out = {"name": "lexical_level", "states": 0, "transitions": 0, "parses": 0, "known": {}, "viols": [],
           "machinery": [], "coverage": {}, "samples": []}
    fams = [(b"", 3), (b"text:", 3), (b'"', 3), (b"/*", 3), (b"#", 2), (b":", 3)]
    if tier == "thorough":
        fams = [(b"", 4), (b"text:", 4), (b'"', 4), (b"/*", 4), (b"#", 3), (b":", 4), (b"text:\n", 3)]
    with ThreadPoolExecutor(max_workers=7) as ex:
        results = list(ex.map(lambda f: (f, tlc_lex(list(f[0]), f[1])), fams))
    lx = I.sparser.Lexer(I.sparser.Parser.lrules)
    n = 0
    for (prefix, ml), (lines, res) in results:
        if res["error"] or res["violated"]:
            out["machinery"].append("TLC SieveLex %r: %s %s" % (prefix, res["error"], res["violated"]))
        out["states"] += res["distinct"]
        out["transitions"] += res["states"]
        for octs, toks, err, dc in lines:
            data = bytes(octs)
            want = [(k, st - 1, ln) for k, st, ln in toks]
            # the harness's own lexer must agree with the specification (else the trace-validation direction is unsound)
            t2, sp2, note = lexref.lex(data)
            mine = [(k, sp[0], sp[1]) for (k, v), sp in zip(t2, sp2) if k != "junk"]
            e2 = [sp[0] + 1 for (k, v), sp in zip(t2, sp2) if k == "junk"]
            if mine != want or (err != 0) != bool(e2) or (err and e2[0] != err):
                out["machinery"].append("harness lexer disagrees with SieveLex on %r: %r vs %r" % (data, mine, want))
                if len(out["machinery"]) > 3:
                    return out
            if dc or note or I._slow_events[0] >= 5:
                continue
            n += 1
            got, gerr, exc = [], 0, None

            def scan_all():
                for ttype, tvalue in lx.scan(data):
                    if ttype in ("hash_comment", "bracket_comment"):
                        continue
                    got.append((IMPL_KIND.get(ttype, ttype), lx.pos, len(tvalue)))
            g = I.guarded(scan_all)
            if g[0] == "raise" and g[1] == "ParseError":
                gerr = lx.pos + 1
            elif g[0] != "ret":
                exc = g[1] if g[0] == "raise" else "no result (watchdog)"
            rec = {"text": repr(data), "expl": None, "ref": [], "obs": {"tokens": got, "error_offset": gerr, "exc": exc}}
            if exc:
                out["viols"].append(("lexical", dict(rec, failed={"C02": "Lexer.scan raised %s on %r" % (exc, data)})))
            elif got != want and prop in ("C01", "C02"):
                out["viols"].append(("lexical", dict(rec, failed={prop: "token stream of %r is %r, RFC 5228 lexical rules give %r" % (data, got, want)})))
            elif gerr != err and prop == "C18":
                out["viols"].append(("lexical", dict(rec, failed={"C18": "lexical error of %r reported at offset %d, the octets that are no token start at %d" % (data, gerr, err)})))
    out["viols"] = [v for v in out["viols"] if prop in v[1]["failed"]]
    out["parses"] = n
    out["coverage"] = {"inputs": n, "families": [[p.decode("latin-1"), m] for p, m in fams], "alphabet": bytes(LEX_ALPHA).decode("latin-1")}
    return out


def drivers(prop):
    if prop in ("C01", "C02", "C18"):
        return [driver, lex_driver]
    return [driver]
