"""code -> spec direction for the parser: TLC (spec/SieveTrace.tla) judges token traces of
scripts it did not generate; the implementation's behaviour on the same bytes is then compared
with the outcome of TLC's reference path (and explained, if at all, by a deviation path)."""
import json
import os
import tempfile

from . import lexref, pengine
from .tlc import run_tlc, BUILD


# TLC keeps strings as Java strings in memory but writes them with one octet per character when states are
# spilled to its disk queue (a batch of ~15 000 traces is enough): 'é☃' comes back as '\uffe9\u0003'.  Token values
# are opaque to the specification (compared for equality only; the names it inspects are ASCII), so every value with a
# character outside ASCII is sent in an ASCII armour and restored in what TLC prints.
ARM = "\x02"


def armour(v):
    if v.isascii() and ARM not in v:
        return v
    return ARM + json.dumps(v)[1:-1]


def dearmour(x):
    if isinstance(x, str):
        return json.loads('"' + x[1:] + '"') if x.startswith(ARM) else x
    if isinstance(x, list):
        return [dearmour(y) for y in x]
    return x


RFC_TAG_EXT = {":user": "subaddress", ":detail": "subaddress", ":index": "index", ":last": "index",
               ":anychild": "mime", ":type": "mime", ":subtype": "mime", ":contenttype": "mime", ":param": "mime",
               ":importance": "enotify", ":options": "enotify", ":message": "enotify", ":lower": "variables",
               ":upper": "variables", ":lowerfirst": "variables", ":upperfirst": "variables", ":quotewildcard": "variables",
               ":length": "variables", ":list": "extlists", ":once": "include", ":optional": "include",
               ":personal": "include", ":global": "include", ":fcc": "fcc", ":specialuse": "special-use"}
RFC_TAG_RFC = {"subaddress": "RFC 5233", "index": "RFC 5260", "mime": "RFC 5703", "enotify": "RFC 5435", "variables": "RFC 5229",
               "extlists": "RFC 6134", "include": "RFC 6609", "fcc": "RFC 8580", "special-use": "RFC 8579"}


def tlc_judge(token_lists, devs, custom="<<>>", workers=1):
    """token_lists: list of token lists -> (list of outs per trace, tlc stats)"""
    os.makedirs(BUILD, exist_ok=True)
    results = [None] * len(token_lists)
    stats = {"states": 0, "distinct": 0, "error": None, "violated": None, "wall": 0.0, "runs": 0}
    # several JVMs side by side on disjoint batches
    import concurrent.futures as cf
    nb = max(1, min(8, len(token_lists) // 1500 + 1))
    batches = [list(range(b, len(token_lists), nb)) for b in range(nb)]

    def one(idx):
        fd, path = tempfile.mkstemp(prefix="traces_", suffix=".json", dir=BUILD)
        with os.fdopen(fd, "w") as fp:
            json.dump([{"id": i, "toks": [{"k": k, "v": armour(v)} for k, v in token_lists[i]]} for i in idx], fp)
        got = {}

        def on_value(v):
            got[v[0]] = dearmour(v[2])
        cfg = ("SPECIFICATION Spec\nCONSTANTS\n Custom <- MCCustom\n EnabledDevs = {%s}\n"
               "INVARIANT Emit\nINVARIANT OneRefPath\nINVARIANT GatedInv\nCHECK_DEADLOCK FALSE\n"
               % ", ".join('"%s"' % d for d in devs))
        try:
            res = run_tlc("trace", "SieveTrace", "MCCustom == %s\n" % custom, cfg, on_value=on_value,
                          workers=workers, env={"TRACE_FILE": path})
        finally:
            os.unlink(path)
        return got, res

    with cf.ThreadPoolExecutor(max_workers=nb) as ex:
        for got, res in ex.map(one, batches):
            for i, outs in got.items():
                results[i] = outs
            stats["states"] += res["states"]
            stats["distinct"] += res["distinct"]
            stats["wall"] = max(stats["wall"], res["wall"])
            stats["runs"] += 1
            if res["error"] or res["violated"]:
                stats["error"] = res["error"] or res["violated"]
    return results, stats


def judge_scripts(scripts, devs, custom="<<>>", setup=None, roundtrip=False):
    """scripts: list of bytes.  -> (records, counters, tlc stats).  A record is produced for every
    script with a failing judgement: {text, failed, expl, ref, obs}."""
    from . import sieve_impl as I
    lexed = [lexref.lex(s) for s in scripts]
    outs_all, stats = tlc_judge([l[0] for l in lexed], devs, custom)
    p = I.new_parser()
    p2 = I.new_parser()      # a more recently created parser: what it parses must not reach the judged (older) one
    recs = []
    refs = []
    stats["refs"] = refs
    cnt = {"parses": 0, "acc": 0, "rej": 0, "dc": 0, "missing": 0}
    for data, (toks, spans, note), outs in zip(scripts, lexed, outs_all):
        if outs is None:
            cnt["missing"] += 1
            refs.append(None)
            continue
        r0 = [q for q in outs if not q[0]][0]
        refs.append({"v": r0[1], "why": r0[2], "irr": r0[5], "note": sorted(note), "devpaths": len(outs) > 1})
        if I._slow_events[0] >= 5:
            # non-termination is established (reported below): do not spend the watchdog limit on every further input
            cnt["skipped_after_hangs"] = cnt.get("skipped_after_hangs", 0) + 1
            continue
        if len(data) % 5 == 2:
            p2.parse(pengine.POISON)
        o = I.run_parse(p, data, rt=roundtrip)
        cnt["parses"] += 1
        ref = [q for q in outs if not q[0]][0]
        if ref[5] or note:
            cnt["dc"] += 1
        elif ref[1] == "acc":
            cnt["acc"] += 1
        else:
            cnt["rej"] += 1
        failed = pengine.judge_obs(o, data, spans, len(toks), outs, lexnote=note, raw=True)
        if o["cls"] == "ret" and o["verdict"] is True and not note:
            # gating of constructs the command table does not know (C07): a tag that an RFC defines as part of an
            # extension is accepted, and nothing in the script names that extension
            strs = {v for k, v in toks if k == "str"}
            for k, v in toks:
                ext = RFC_TAG_EXT.get(v.lower()) if k == "tag" else None
                if ext and ext not in strs:
                    failed["C07"] = "accepted the tag %s (extension %s, %s) although the script does not require it" % (v, ext, RFC_TAG_RFC[ext])
                    break
        if failed:
            expl = pengine.explain(outs, o, spans, data, failed, raw=True)
            recs.append({"text": data.decode("utf-8", "replace"), "failed": failed, "expl": expl,
                         "ref": ref[:6], "lexnote": sorted(note),
                         "obs": {k: o.get(k) for k in ("cls", "verdict", "error", "error_pos", "yields", "exc")}})
    return recs, cnt, stats
