"""Drive the real sievelib.managesieve.Client against a scripted socket.

No source hooks: `socket.create_connection` is patched in the harness process to hand out
FakeSocket objects; plain and TLS sockets are distinct objects so that writes are logged per
channel.  A FakeSocket serves one reply per *write phase* (the bytes the client writes before
it starts reading again), cut into recv() results by a chunk plan, never more than asked.
"""
import os
import socket
import ssl
import sys

REPO = os.environ.get("VERIF_REPO", "/repo")
if REPO not in sys.path:
    sys.path.insert(0, REPO)

from sievelib import managesieve as ms  # noqa: E402

assert os.path.abspath(ms.__file__).startswith(os.path.abspath(REPO)), ms.__file__


class Hang(BaseException):
    pass


class VirtualClock:
    """While active, the clocks a program can read (time.time / monotonic / perf_counter) run ahead by `offset`; a
    FakeSocket with a `tick` lets that much time pass on every recv(): slow but progressing delivery, each segment
    within the socket timeout."""
    offset = 0.0
    depth = 0

    def __enter__(self):
        import time as _t
        if VirtualClock.depth == 0:
            VirtualClock.saved = (_t.time, _t.monotonic, _t.perf_counter)
            r_time, r_mono, r_perf = VirtualClock.saved
            _t.time = lambda: r_time() + VirtualClock.offset
            _t.monotonic = lambda: r_mono() + VirtualClock.offset
            _t.perf_counter = lambda: r_perf() + VirtualClock.offset
        VirtualClock.depth += 1
        return self

    def __exit__(self, *a):
        import time as _t
        VirtualClock.depth -= 1
        if VirtualClock.depth == 0:
            _t.time, _t.monotonic, _t.perf_counter = VirtualClock.saved


class FakeSocket:
    """server: callable(write_phase_bytes, sock) -> reply bytes (or None = silence, "EOF" = close)
    plan: callable(reply_bytes) -> list of chunk lengths (sum may be less: rest delivered whole)"""

    def __init__(self, server, plan=None, cap=0, channel="plain"):
        self.server = server
        self.plan = plan or (lambda b: [len(b)])
        self.cap = cap
        self.channel = channel
        self.pending = b""        # bytes written since the last read
        self.avail = []           # chunks still to deliver
        self.writes = []          # list of write phases (bytes)
        self.recvs = []           # (asked, got)
        self.eof = False
        self.empty_reads = 0
        self.closed = False
        self.timeout_set = None

    def settimeout(self, t):
        self.timeout_set = t

    def sendall(self, b):
        if self.closed:
            raise OSError("closed")
        if getattr(self, "reset", False):
            # the peer has reset the connection: the write side fails
            raise ConnectionResetError(104, "Connection reset by peer")
        self.pending += bytes(b)

    def _flush(self):
        if self.pending:
            w = self.pending
            self.pending = b""
            self.writes.append(w)
            r = self.server(w, self)
            if r == "EOF":
                self.eof = True
            elif isinstance(r, tuple) and r and r[0] == "stall":
                # ("stall", data, cut): the first `cut` octets arrive, then nothing for longer than the read
                # timeout (one recv raises socket.timeout), then the rest becomes available
                data, cut = r[1], r[2]
                self.avail += [data[:cut], None, data[cut:]]
            elif r:
                cuts = self.plan(r)
                i = 0
                for n in cuts:
                    if n > 0 and i < len(r):
                        self.avail.append(r[i:i + n])
                        i += n
                if i < len(r):
                    self.avail.append(r[i:])

    def push(self, r):
        """unsolicited server bytes (greeting)"""
        cuts = self.plan(r)
        i = 0
        for n in cuts:
            if n > 0 and i < len(r):
                self.avail.append(r[i:i + n])
                i += n
        if i < len(r):
            self.avail.append(r[i:])

    def recv(self, n):
        self._flush()
        if getattr(self, "tick", 0):
            VirtualClock.offset += self.tick
        if not self.avail:
            if self.eof:
                self.empty_reads += 1
                if self.empty_reads > 20:
                    raise Hang("client keeps reading after EOF")
                self.recvs.append((n, 0))
                return b""
            self.recvs.append((n, -1))
            raise socket.timeout("timed out")
        if self.avail[0] is None:
            self.avail.pop(0)
            self.recvs.append((n, -1))
            raise socket.timeout("timed out")
        c = self.avail[0]
        k = min(len(c), n, self.cap or len(c))
        out, rest = c[:k], c[k:]
        if rest:
            self.avail[0] = rest
        else:
            self.avail.pop(0)
        self.recvs.append((n, len(out)))
        return out

    def leftover(self):
        return b"".join(x for x in self.avail if x)

    def close(self):
        self.closed = True


class FakeTLSContext:
    """stands in for ssl.create_default_context(); wrap_socket returns the prepared TLS socket"""

    def __init__(self, tls_sock, fail=False):
        self.tls_sock = tls_sock
        self.fail = fail
        self.wrapped = None

    def load_cert_chain(self, *a, **k):
        pass

    def wrap_socket(self, sock, server_hostname=None):
        if self.fail:
            raise ssl.SSLError("handshake failure")
        self.wrapped = sock
        return self.tls_sock


class Patched:
    """context manager: socket.create_connection -> given sockets in order; ssl context -> given"""

    def __init__(self, socks, tlsctx=None, connect_fail=False):
        self.socks = list(socks)
        self.tlsctx = tlsctx
        self.connect_fail = connect_fail

    def __enter__(self):
        self.o1 = socket.create_connection
        self.o2 = ssl.create_default_context

        def cc(addr, *a, **k):
            if self.connect_fail or not self.socks:
                raise socket.error("connection refused")
            return self.socks.pop(0)
        socket.create_connection = cc
        if self.tlsctx is not None:
            ssl.create_default_context = lambda *a, **k: self.tlsctx
        return self

    def __exit__(self, *a):
        socket.create_connection = self.o1
        ssl.create_default_context = self.o2


def call(fn, *args, **kw):
    """-> ("ret", value) | ("error", text) | ("raise", "Type: text") | ("hang", text)"""
    try:
        return ("ret", fn(*args, **kw))
    except ms.Error as e:
        return ("error", str(e))
    except Hang as e:
        return ("hang", str(e))
    except RecursionError:
        return ("raise", "RecursionError")
    except Exception as e:   # noqa
        return ("raise", "%s: %s" % (type(e).__name__, str(e)[:100]))


CAPS_PLAIN = (b'"IMPLEMENTATION" "ref"\r\n"SASL" "PLAIN"\r\n"SIEVE" "fileinto"\r\n')


def connected_client(server, plan=None, cap=0, version=True, greeting_plan=None, debug=False):
    """a Client that went through the real connect() (PLAIN) against a fake socket; returns (client, sock)"""
    caps = CAPS_PLAIN + (b'"VERSION" "1.0"\r\n' if version else b"") + b"OK\r\n"
    state = {"authed": False}

    def srv(w, sock):
        if not state["authed"]:
            state["authed"] = True
            return b"OK\r\n"
        return server(w, sock)
    s = FakeSocket(srv, plan=None, cap=0)
    s.push(caps)
    c = ms.Client("h", debug=debug)
    import contextlib
    import io
    with Patched([s]), contextlib.redirect_stdout(io.StringIO()):
        r = call(c.connect, "u", "p")
    assert r == ("ret", True), r
    s.plan = plan or (lambda b: [len(b)])
    s.cap = cap
    s.writes.clear()
    s.recvs.clear()
    return c, s


def private_buffer(c):
    return getattr(c, "_Client__read_buffer", None)
