"""Self-test of the binding (run: /venv/bin/python -W ignore -m harness.selftest).

 1. corrupted traces: one recorded field flipped / one event dropped -> the trace specification must flag it
 2. deviations are not vacuous: enabling one produces extra paths / outcomes exactly where its witness lives
 3. seeded changes: every /verif/seeded/*/patch.diff is applied to /repo in turn, the quick check of its
    property must report a VIOLATION, and /repo is restored (git checkout -- .)
Writes /verif/selftest/RESULTS.md.  Not a registered check: it modifies /repo's working tree temporarily.
"""
import glob
import json
import os
import subprocess
import sys
import time

VERIF = os.path.dirname(os.path.dirname(os.path.abspath(__file__)))


def corrupt_session_traces():
    from . import c_ms_session as S
    good = [["call", "connect", True, ""], ["open", 1], ["caps", 1, ["PLAIN"]], ["write", 1, "plain", "STARTTLS", ""],
            ["reply", 1, "STARTTLS", "OK"], ["tlsup", 1], ["caps", 1, ["PLAIN"]], ["write", 1, "tls", "AUTHENTICATE", "PLAIN"],
            ["reply", 1, "AUTHENTICATE", "OK"], ["ret", "true"], ["call", "op", "LISTSCRIPTS"],
            ["write", 1, "tls", "LISTSCRIPTS", ""], ["reply", 1, "LISTSCRIPTS", "OK"], ["ret", "other"]]
    cases = {"unchanged": (good, "")}
    t = json.loads(json.dumps(good)); t[8][3] = "NO"; t[9][1] = "false"
    cases["AUTHENTICATE reply flipped to NO"] = (t, "NoScriptCmdBeforeAuth")
    t = [e for e in good if e[0] != "tlsup"]
    cases["tlsup event dropped"] = (t, "NoCredsBeforeTLS")
    t = json.loads(json.dumps(good)); t[6][2] = ["LOGIN"]
    cases["post-TLS announcement changed to LOGIN"] = (t, "MechFromPostTLSCaps")
    t = json.loads(json.dumps(good)); t[8][3] = "NO"
    cases["reply NO but connect returned true"] = (t, "ConnectTrueWithoutOK")
    t = good[:7] + [["ret", "false"]]
    cases["connect gives up without writing AUTHENTICATE although PLAIN is announced after TLS"] = (t, "MechAvailableNotTried")
    names = list(cases)
    got, res = S.validate([cases[n][0] for n in names])
    rows = []
    for i, n in enumerate(names):
        clause = got.get(i, ("?", 0))[0]
        rows.append((n, cases[n][1], clause, clause == cases[n][1]))
    return rows


def corrupt_store_traces():
    from . import c_ms_store as S
    good = [["init", [["a", "B1"], ["b", "B2"]], "a"], ["call", "listscripts", "", ""], ["cmd", "LISTSCRIPTS", "", ""],
            ["reply", "OK", "", [["a", True], ["b", False]], ""], ["leftover", 0], ["ret", "list", ["a", ["b"]]],
            ["call", "getscript", "b", ""], ["cmd", "GETSCRIPT", "b", ""], ["reply", "OK", "", ["B2"], ""], ["leftover", 0],
            ["ret", "body", "B2"], ["call", "deletescript", "a", ""], ["cmd", "DELETESCRIPT", "a", ""],
            ["reply", "NO", "ACTIVE", [], ""], ["leftover", 0], ["ret", "false", ""]]
    cases = {"unchanged": (good, "")}
    t = json.loads(json.dumps(good)); t[5][2] = ["", ["a", "b"]]
    cases["listscripts result lost the active flag"] = (t, "ViewMatchesStore")
    t = json.loads(json.dumps(good)); t[10][2] = "B1"
    cases["getscript returned another body"] = (t, "ViewMatchesStore")
    t = json.loads(json.dumps(good)); t[15][1] = "true"
    cases["NO reported as True"] = (t, "ResultMirrorsStatus")
    t = json.loads(json.dumps(good)); t[13] = ["reply", "OK", "", [], ""]
    cases["scripted server deleted the active script"] = (t, "ServerDoubleWrong")
    t = json.loads(json.dumps(good)); t[9][1] = 7
    cases["7 octets left unread"] = (t, "OutOfStep")
    names = list(cases)
    got, st = S.validate([cases[n][0] for n in names])
    return [(n, cases[n][1], got.get(i, ("?", 0))[0], got.get(i, ("?", 0))[0] == cases[n][1]) for i, n in enumerate(names)]


def deviation_paths():
    """witnesses of the parser deviations (Dev_OptionalTagsRefused is retired: fixed by f1a7356, kept disabled in the specification): with the deviation enabled TLC prints a second path"""
    from . import ptrace, lexref
    rows = []
    for dev, text in (("Dev_LateDetection", b"stop ( }"), ("Dev_OptionalTagsRefused", b'require "imap4flags"; keep :flags "a";')):
        toks = lexref.lex(text)[0]
        off, _ = ptrace.tlc_judge([toks], [])
        on, _ = ptrace.tlc_judge([toks], [dev])
        rows.append((dev, text.decode(), len(off[0]), len(on[0]), len(on[0]) > len(off[0])))
    return rows


def seeds():
    rows = []
    for d in sorted(glob.glob(os.path.join(VERIF, "seeded", "*"))):
        meta = json.load(open(os.path.join(d, "meta.json")))
        prop = meta["property"]
        patch = os.path.join(d, "patch.diff")
        r = subprocess.run(["git", "-C", "/repo", "apply", patch], capture_output=True, text=True)
        if r.returncode:
            rows.append((os.path.basename(d), prop, "patch does not apply", False, 0))
            continue
        t0 = time.time()
        try:
            p = subprocess.run([os.path.join(VERIF, "check"), prop, "--tier", "quick"], capture_output=True, text=True, cwd=VERIF)
        finally:
            subprocess.run(["git", "-C", "/repo", "checkout", "--", "."])
        nv = sum(1 for l in p.stdout.splitlines() if l.startswith("VIOLATION property=%s" % prop))
        rows.append((os.path.basename(d), prop, "rc=%d, %d VIOLATION lines" % (p.returncode, nv), p.returncode == 1 and nv > 0,
                     round(time.time() - t0)))
    return rows


def main():
    only = sys.argv[1:] or ["traces", "devs", "seeds"]
    out = ["# Self-test results", "", "Generated by `python -m harness.selftest` on /repo HEAD %s." %
           subprocess.check_output(["git", "-C", "/repo", "log", "--format=%h", "-1"], text=True).strip(), ""]
    ok = True
    if "traces" in only:
        out += ["## Corrupted traces (the trace specifications reject what they should)", "",
                "| trace spec | corruption | expected clause | TLC said | ok |", "|---|---|---|---|---|"]
        for n, exp, got, good in corrupt_session_traces():
            out.append("| MSSessionTrace | %s | %s | %s | %s |" % (n, exp or "(accepted)", got or "(accepted)", "yes" if good else "NO"))
            ok &= good
        for n, exp, got, good in corrupt_store_traces():
            out.append("| MSStoreTrace | %s | %s | %s | %s |" % (n, exp or "(accepted)", got or "(accepted)", "yes" if good else "NO"))
            ok &= good
        out.append("")
    if "devs" in only:
        out += ["## Deviations are not vacuous", "", "| deviation | witness | paths without | paths with | ok |", "|---|---|---|---|---|"]
        for dev, text, a, b, good in deviation_paths():
            out.append("| %s | `%s` | %d | %d | %s |" % (dev, text, a, b, "yes" if good else "NO"))
            ok &= good
        out.append("")
    if "seeds" in only:
        out += ["## Seeded changes against the quick checks", "", "| seed | property | result | detected | s |", "|---|---|---|---|---|"]
        for name, prop, res, good, secs in seeds():
            out.append("| %s | %s | %s | %s | %s |" % (name, prop, res, "yes" if good else "NO", secs))
            ok &= good
        out.append("")
    path = os.path.join(VERIF, "selftest", "RESULTS.md")
    with open(path, "w") as fp:
        fp.write("\n".join(out) + "\n")
    print("\n".join(out))
    sys.exit(0 if ok else 1)


if __name__ == "__main__":
    main()
