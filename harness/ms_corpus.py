"""Corpus of abstract ManageSieve replies (RFC 5804 response grammar) and, for each operation,
the result the client must report for it.  The wire form comes from TLC (MSReader!Enc)."""
import itertools


def b(s):
    return list(s.encode("utf-8")) if isinstance(s, str) else list(s)


def item(e, v):
    return {"e": e, "v": b(v)}


NOITEM = {"e": "none", "v": []}


def reply(lines=(), st="OK", code="", cargs=(), text=NOITEM, fam="status", tag=""):
    return {"lines": [list(l) for l in lines], "st": st, "code": b(code), "cargs": list(cargs), "text": text,
            "fam": fam, "tag": tag}


CODES = [("", ()), ("WARNINGS", ()), ("NONEXISTENT", ()), ("QUOTA/MAXSIZE", ()),
         ("TAG", (item("q", "t1"),)), ("TAG", (item("l", "t"),)), ("REFERRAL", (item("q", "sieve://x"),)),
         # extension codes may carry several parameters (RFC 5804: extension-data = extension-item *(SP extension-item))
         ("X-LIMIT", (item("l", "foo"), item("l", "ba r"), item("q", "z")))]
TEXTS = [NOITEM, item("q", "txt"), item("q", 'a "q" b'), item("q", ""), item("l", "txt"), item("l", ""),
         item("l", "l1\r\nl2"), item("q", "é"), item("q", "near {2} over the {64+} limit"),
         # literal texts whose own last octets are line ends (multi-line error reports end every line with CRLF)
         item("l", "line 1: x\r\nline 2: y\r\n"), item("l", "x\n"), item("l", "\r\n")]

NAMES = ["a", "OK", "NO x", "{5}", 'a"b', "c\\d", "x ACTIVE", "é", "b"]
BODIES = ["", "a", "a\r\n", "keep;\r\n", "OK x\r\n", "l1\r\nNO\r\n", "{5}\r\nabc\r\n", "BYE", '"q"\r\n', "x ACTIVE\r\n",
          "é\r\n", "a\nb\n", "l1\r\n\r\nl3\r\n", "a\r\nb", "{3}\r\n", "OK\r\nOK\r\n",
          "\ufeffkeep;\r\n", "\ufeff# c\r\nstop;\r\n", "\ufeff", " \tkeep;\r\n", "\r\nkeep;\r\n",      # leading BOM / blanks / empty first line belong to the script
          "a\u2028b\r\nc\r\n", "x\x0cy\r\n", "v\x0bt\r\n", "n\u0085m\r\n", "p\x1cq\x1dr\x1es\r\n", "# c\r\nkeep;"]


def status_replies(full=True):
    out = []
    for st in ("OK", "NO", "BYE"):
        for (code, cargs), text in itertools.product(CODES, TEXTS):
            if not full and (len(out) % 3):
                pass
            out.append(reply(st=st, code=code, cargs=cargs, text=text, fam="status",
                             tag="%s/%s/%s" % (st, code or "-", text["e"])))
    return out


def list_replies(full=True):
    out = []

    def line(name, enc, active):
        l = [item(enc, name)]
        if active:
            l.append(item("a", "ACTIVE"))
        return l
    for n in NAMES:
        for enc in ("q", "l"):
            for act in (False, True):
                out.append(reply(lines=[line(n, enc, act)], fam="list", tag="1:%s:%s:%s" % (n, enc, act)))
    pairs = list(itertools.permutations(NAMES, 2))
    for i, (n1, n2) in enumerate(pairs):
        if not full and i % 7:
            continue
        e1, e2 = ("q", "l")[i % 2], ("q", "l")[(i // 2) % 2]
        act = i % 3      # 0 none, 1 first, 2 second
        out.append(reply(lines=[line(n1, e1, act == 1), line(n2, e2, act == 2)], fam="list",
                         tag="2:%s,%s" % (n1, n2)))
    out.append(reply(lines=[], fam="list", tag="0"))
    out.append(reply(lines=[line("a", "q", False), line("b", "l", True), line("OK", "l", False)], fam="list", tag="3"))
    out.append(reply(lines=[], st="NO", text=item("q", "no"), fam="list", tag="NO"))
    out.append(reply(lines=[line("a", "q", False)], st="OK", text=item("q", "Listscripts completed."), fam="list", tag="oktext"))
    return out


def get_replies():
    out = []
    for body in BODIES:
        out.append(reply(lines=[[item("l", body)]], fam="get", tag="body:%r" % body))
    out.append(reply(lines=[[item("l", "keep;\r\n")]], text=item("q", "Getscript completed."), fam="get", tag="oktext"))
    out.append(reply(st="NO", code="NONEXISTENT", text=item("q", "no such script"), fam="get", tag="NO"))
    out.append(reply(st="NO", text=item("l", "lit"), fam="get", tag="NOlit"))
    return out


def caps_replies():
    def cap(*its):
        return [item("q", x) for x in its]
    base = [cap("IMPLEMENTATION", "ref 1.0"), cap("SASL", "PLAIN LOGIN"), cap("SIEVE", "fileinto vacation"),
            cap("STARTTLS"), cap("VERSION", "1.0")]
    out = [reply(lines=base, fam="caps", tag="full"),
           reply(lines=base[:3], fam="caps", tag="min", text=item("q", "ready")),
           reply(lines=base + [cap("XUNKNOWN", "x"), cap("NOTIFY", "mailto")], fam="caps", tag="unknown"),
           reply(lines=[cap("IMPLEMENTATION", "x"), cap("SASL", ""), cap("SIEVE", "")], fam="caps", tag="emptysasl")]
    return out


HOSTILE = ["OK", "NO", "BYE", "{5}", "{2+}", "ACTIVE", '"', "\\", " ", "\r\n", "\n", "\r", "é", "☃", "\u2028", "\x0c", "\x0b", "\u0085",
           "\x1d", "a", "b", "keep;", "#", "(", ")", "text:", ".", "\t", "0"]


def random_replies(seed, n):
    """seeded replies drawn from the same grammar with contents over a hostile vocabulary (short enough for TLC)"""
    import random
    rng = random.Random(seed * 31 + 7)
    out = []
    for k in range(n):
        kind = k % 3
        if kind == 0:      # getscript body
            body = "".join(rng.choice(HOSTILE) for _ in range(rng.randrange(1, 9)))
            out.append(reply(lines=[[item("l", body)]], fam="get", tag="rbody:%r" % body))
        elif kind == 1:    # listing with names free of the characters the client is known not to decode (F06-F08)
            names = []
            for _ in range(rng.randrange(1, 4)):
                nm = "".join(rng.choice([h for h in HOSTILE if h not in ('"', "\\", "\r\n", "\n", "\r", "{5}", "{2+}")]) for _ in range(rng.randrange(1, 4)))
                if nm not in names and nm.strip() == nm and nm:
                    names.append(nm)
            act = rng.randrange(len(names) + 1)
            lines = [[item("q", nm)] + ([item("a", "ACTIVE")] if i + 1 == act else []) for i, nm in enumerate(names)]
            if lines:
                out.append(reply(lines=lines, fam="list", tag="rlist:%r" % names))
        else:              # NO / OK with a quoted text free of quote and backslash (F04) but otherwise hostile
            text = "".join(rng.choice([h for h in HOSTILE if h not in ('"', "\\", "\r\n", "\n", "\r")]) for _ in range(rng.randrange(1, 7)))
            code = rng.choice(["", "QUOTA/MAXSIZE", "NONEXISTENT", "WARNINGS"])
            out.append(reply(st=rng.choice(["NO", "NO", "OK"]), code=code, text=item("q", text), fam="status", tag="rtext:%r" % text))
    return out


def all_replies(full=True, seed=0):
    return status_replies(full) + list_replies(full) + get_replies() + caps_replies() + random_replies(seed, 60 if not full else 300)


def to_tla(r):
    """abstract reply -> TLA+ record expression"""
    def it(x):
        return '[e |-> "%s", v |-> <<%s>>]' % (x["e"], ", ".join(map(str, x["v"])))
    return ('[lines |-> <<%s>>, st |-> "%s", code |-> <<%s>>, cargs |-> <<%s>>, text |-> %s]'
            % (", ".join("<<" + ", ".join(it(x) for x in l) + ">>" for l in r["lines"]), r["st"],
               ", ".join(map(str, r["code"])), ", ".join(it(x) for x in r["cargs"]), it(r["text"])))


# ----------------------------------------------------------------- expectations
def bs(v):
    return bytes(v)


def expect_status(r):
    """-> (kind, errcode, errmsg): kind in ok/no/bye"""
    return {"OK": "ok", "NO": "no", "BYE": "bye"}[r["st"]], bs(r["code"]), (bs(r["text"]["v"]) if r["text"]["e"] != "none" else None)


def expect_list(r):
    active = None
    names = []
    for l in r["lines"]:
        n = bs(l[0]["v"]).decode("utf-8")
        if len(l) > 1 and l[1]["e"] == "a" and bs(l[1]["v"]).upper() == b"ACTIVE":
            active = n
        else:
            names.append(n)
    return (active, names)


def norm_body(s):
    """C17: bodies are compared line by line, ignoring line-ending style and trailing blank lines"""
    if isinstance(s, bytes):
        s = s.decode("utf-8")
    lines = s.replace("\r\n", "\n").replace("\r", "\n").split("\n")
    while lines and lines[-1] == "":
        lines.pop()
    return lines


def expect_get(r):
    return norm_body(bs(r["lines"][0][0]["v"]))
