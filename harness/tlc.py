"""Run TLC on a generated model and stream what it prints.

Every model-checking run of the framework goes through `run_tlc`: it copies the
specification modules next to a generated `MC.tla`/`MC.cfg` in a private
directory under /verif/build, starts TLC, hands every `PrintT(ToJson(..))`
line to a callback as a decoded Python value, and returns TLC's own counters
(states generated / distinct, depth) plus any invariant violation or error.
"""
import json
import os
import re
import shutil
import subprocess
import tempfile
import time

VERIF = os.path.dirname(os.path.dirname(os.path.abspath(__file__)))
SPEC = os.path.join(VERIF, "spec")
BUILD = os.path.join(VERIF, "build")
JAR = "/opt/veriftools/tla/tla2tools.jar"
CM = "/opt/veriftools/tla/CommunityModules-deps.jar"


class TLCError(Exception):
    pass


def tla_str(s):
    return '"' + s.replace("\\", "\\\\").replace('"', '\\"') + '"'


def tla_val(v):
    """Python value -> TLA+ expression (str, int, bool, list=sequence, set, dict=record,
    ('fn', dict) = function with string keys)."""
    if isinstance(v, bool):
        return "TRUE" if v else "FALSE"
    if isinstance(v, int):
        return str(v)
    if isinstance(v, str):
        return tla_str(v)
    if isinstance(v, (list, tuple)):
        if len(v) == 2 and v[0] == "fn" and isinstance(v[1], dict):
            if not v[1]:
                return "<<>>"
            return "(" + " @@ ".join("(%s :> %s)" % (tla_str(k), tla_val(x)) for k, x in v[1].items()) + ")"
        if len(v) == 2 and v[0] == "raw":
            return v[1]
        return "<<" + ", ".join(tla_val(x) for x in v) + ">>"
    if isinstance(v, (set, frozenset)):
        return "{" + ", ".join(tla_val(x) for x in sorted(v, key=repr)) + "}"
    if isinstance(v, dict):
        return "[" + ", ".join("%s |-> %s" % (k, tla_val(x)) for k, x in v.items()) + "]"
    raise TypeError(v)


def run_tlc(name, extends, defs, cfg, on_value=None, workers=16, timeout=3600,
            simulate=None, depth=None, seed=None, env=None, keep=False, coverage=False,
            heap=None):
    """name: label; extends: module to EXTEND; defs: text of extra definitions for MC.tla;
    cfg: text of MC.cfg.  Returns dict(states, distinct, depth, wall, error, violated, lines)."""
    os.makedirs(BUILD, exist_ok=True)
    d = tempfile.mkdtemp(prefix="tlc_%s_" % name, dir=BUILD)
    try:
        for f in os.listdir(SPEC):
            if f.endswith(".tla"):
                shutil.copy(os.path.join(SPEC, f), d)
        with open(os.path.join(d, "MC.tla"), "w") as fp:
            fp.write("---- MODULE MC ----\nEXTENDS %s\n%s\n====\n" % (extends, defs))
        with open(os.path.join(d, "MC.cfg"), "w") as fp:
            fp.write(cfg)
        cmd = ["java", "-XX:+UseParallelGC"]
        if heap:
            cmd.append("-Xmx%s" % heap)
        cmd += ["-cp", JAR + ":" + CM, "tlc2.TLC", "-workers", str(workers),
                "-metadir", os.path.join(d, "states"), "-noGenerateSpecTE"]
        if simulate is not None:
            cmd += ["-simulate", "num=%d" % simulate]
            if depth:
                cmd += ["-depth", str(depth)]
        if seed is not None:
            cmd += ["-seed", str(seed)]
        if coverage:
            cmd += ["-coverage", "1"]
        cmd.append("MC.tla")
        e = dict(os.environ)
        if env:
            e.update(env)
        t0 = time.time()
        p = subprocess.Popen(cmd, cwd=d, stdout=subprocess.PIPE, stderr=subprocess.STDOUT,
                             text=True, env=e, bufsize=1 << 20)
        res = dict(states=0, distinct=0, depth=0, error=None, violated=None, lines=0, log=[])
        errmode = False
        try:
            for line in p.stdout:
                if line.startswith('"'):
                    try:
                        val = json.loads(json.loads(line))
                    except (ValueError, TypeError):
                        val = None          # part of an error trace, not an emission
                    if val is not None:
                        res["lines"] += 1
                        if on_value is not None:
                            on_value(val)
                        continue
                if len(res["log"]) < 400:
                    res["log"].append(line.rstrip("\n"))
                m = re.match(r"(\d+) states generated, (\d+) distinct states found", line)
                if m:
                    res["states"] = int(m.group(1))
                    res["distinct"] = int(m.group(2))
                m = re.match(r"The depth of the complete state graph search is (\d+)", line)
                if m:
                    res["depth"] = int(m.group(1))
                m = re.match(r"Error: Invariant (\S+) is violated", line)
                if m:
                    res["violated"] = m.group(1)
                m = re.match(r"Error: Action property (\S+) is violated", line)
                if m:
                    res["violated"] = m.group(1)
                if line.startswith("Error:") and res["error"] is None:
                    res["error"] = line.strip()
                if time.time() - t0 > timeout:
                    p.kill()
                    raise TLCError("TLC timeout after %ds (%s)" % (timeout, name))
            p.wait()
        finally:
            if p.poll() is None:
                p.kill()
        res["wall"] = time.time() - t0
        res["rc"] = p.returncode
        if res["error"] is None and p.returncode not in (0,):
            res["error"] = "TLC exit code %s" % p.returncode
        res["dir"] = d
        return res
    finally:
        if not keep:
            shutil.rmtree(d, ignore_errors=True)
