"""Drive the real sievelib.factory.FiltersSet and project it onto spec/FiltersSet.tla's state."""
import io
import os
import sys

REPO = os.environ.get("VERIF_REPO", "/repo")
if REPO not in sys.path:
    sys.path.insert(0, REPO)

from sievelib import factory as sfactory   # noqa: E402
from sievelib import commands as scommands  # noqa: E402
from sievelib import parser as sparser      # noqa: E402

assert os.path.abspath(sfactory.__file__).startswith(os.path.abspath(REPO)), sfactory.__file__

DEFS = {
    "D3": ([("Subject", ":is", "d3")], [("redirect", "D3@example.org"), ("keep",)], "anyof"),     # needs no extension
    "D1": ([("Subject", ":contains", "d1")], [("fileinto", "D1")], "anyof"),
    "D2": ([("size", ":over", "100K"), ("exists", "X-A", "X-B")], [("fileinto", ":copy", "D2"), ("stop",)], "allof"),
}


def call(fn, *a, **k):
    try:
        return repr(fn(*a, **k))
    except sfactory.FilterAlreadyExists:
        return "raise:FilterAlreadyExists"
    except Exception as e:  # noqa
        return "raise:%s: %s" % (type(e).__name__, str(e)[:80])


def unwrap(cmd):
    """-> (inner content, number of `if false` wrappers)"""
    n = 0
    while isinstance(cmd, scommands.IfCommand) and isinstance(cmd.arguments.get("test"), scommands.FalseCommand) \
            and len(cmd.children) == 1:
        cmd = cmd.children[0]
        n += 1
    return cmd, n


def def_of(cmd):
    for node in cmd.walk():
        if node.name == "fileinto":
            v = node.arguments.get("mailbox")
            if isinstance(v, str):
                return v.strip('"')
        if node.name == "redirect":
            v = node.arguments.get("address")
            if isinstance(v, str):
                return v.strip('"').split("@")[0]
    return "?"


def project(fs):
    out = []
    for f in fs.filters:
        inner, wraps = unwrap(f["content"])
        try:
            isdis = fs.is_filter_disabled(f["name"])
        except Exception as e:  # noqa
            isdis = "raise:" + type(e).__name__
        try:
            g = fs.getfilter(f["name"])
            gf = "wrapper" if (isinstance(g, scommands.IfCommand) and isinstance(g.arguments.get("test"), scommands.FalseCommand)) \
                else ("own" if g is not None and def_of(g) == def_of(inner) and isinstance(g, scommands.IfCommand) else "other")
        except Exception as e:  # noqa
            gf = "raise:" + type(e).__name__
        out.append({"name": f["name"], "enabled": f["enabled"], "isdisabled": isdis, "wraps": wraps,
                    "def": def_of(inner), "desc": f.get("description") or "", "getfilter": gf})
    return out


def render(fs):
    buf = io.StringIO()
    fs.tosieve(buf)
    return buf.getvalue()


_shared = []


def reload(fs, prefixes):
    """-> (new set, problem or None).  The Parser object is reused from one reload to the next and, in between,
    has read a script that fails with marker comments still pending: none of that may leak into the load."""
    text = render(fs)
    if not _shared:
        _shared.append(sparser.Parser())
    p = _shared[0]
    pre = prefixes or ("# Filter: ", "# Description: ")
    p.parse("%sstale name\n%sstale description\nif true {" % pre)
    if not p.parse(text):
        return None, "rendered script rejected by the parser: %s" % p.error
    fs2 = sfactory.FiltersSet("reloaded", *prefixes) if prefixes else sfactory.FiltersSet("reloaded")
    try:
        fs2.from_parser_result(p)
    except Exception as e:  # noqa
        return None, "from_parser_result raised %s: %s" % (type(e).__name__, str(e)[:80])
    # a second set loaded from the *same* parse result (a pristine copy next to the working copy): whatever is done
    # to one of them later must leave the other as it is
    try:
        twin = sfactory.FiltersSet("twin", *prefixes) if prefixes else sfactory.FiltersSet("twin")
        twin.from_parser_result(p)
        TWINS.append((twin, render(twin)))
        del TWINS[:-4]
    except Exception:  # noqa
        pass
    return fs2, None


TWINS = []


def twins_changed():
    """-> description of the first twin set whose rendering is no longer what it was when it was loaded"""
    for twin, text in TWINS:
        try:
            now = render(twin)
        except Exception as e:  # noqa
            return "rendering a set loaded earlier from the same parse result now raises %s: %s" % (type(e).__name__, str(e)[:60])
        if now != text:
            return "a set loaded earlier from the same parse result changed although it was never operated on"
    return None
